/* C09: qmail-rspawn.c report(): the verdict relayed to qmail-send never upgrades a refusal, a crash or an
 * unparseable result to success.  Exit-status part: every wait status (complete).  Record-scan part: bounded stand-in,
 * every qmail-remote output of at most NB bytes over the full byte alphabet. */
#include "verif.h"
#include "qmail-rspawn.c"

#ifndef NB
#define NB 10
#endif
char g_first; int g_nput;
substdio g_ss;
char buf[NB + 1];

int substdio_put(substdio *s, const char *b, size_t len)
{
  V_ASSERT(s == &g_ss, "C09: supporting: report writes to the given stream");
  if (g_nput == 0 && len > 0) g_first = b[0];
  if (len > 0) ++g_nput;
  return 0;
}

void harness(void)
{
  int wstat = ND_INT(), len = ND_INT(), k, j, res;
  char exp;
  V_ASSUME(0 <= wstat && wstat <= 65535);
  V_ASSUME(0 <= len && len <= NB);
  V_HAVOC_BYTES(buf, NB);
  buf[NB] = 0;
  g_nput = 0; g_first = 0;
  report(&g_ss, wstat, buf, len);
  V_ASSERT(g_first == 'K' || g_first == 'Z' || g_first == 'D', "C09: every finished qmail-remote yields exactly one verdict K, Z or D");
  if (wstat & 127) { V_ASSERT(g_first == 'Z', "C09: a crashed qmail-remote is a temporary failure"); return; }
  if ((wstat >> 8) == 111) { V_ASSERT(g_first == 'Z', "C09: exit 111 is a temporary failure"); return; }
  if ((wstat >> 8) != 0) { V_ASSERT(g_first == 'D', "C09: any other non-zero exit is a permanent failure, never success"); return; }
  if (!len) { V_ASSERT(g_first == 'Z', "C09: no output is a temporary failure, never success"); return; }
  /* oracle from the property text: the first NUL-terminated record that starts with K, Z or D decides */
  res = 'D'; j = 0;
  for (k = 0; k < len; ++k)
    if (!buf[k]) {
      if (buf[j] == 'K' || buf[j] == 'Z' || buf[j] == 'D') { res = buf[j]; break; }
      j = k + 1;
    }
  exp = (char)res;
  if (buf[0] == 's' && exp == 'K') exp = 'Z';     /* recipient deferred: never better than temporary */
  if (buf[0] == 'h') exp = 'D';                   /* recipient refused: permanent */
  if (buf[0] == 's' && res == 'D') exp = 'Z';     /* (as the code: a soft recipient error is retried) */
  V_ASSERT(g_first != 'K' || (res == 'K' && buf[0] != 's' && buf[0] != 'h'),
           "C09: success is relayed only if the first verdict record of qmail-remote says K and the recipient record is not s or h");
  V_ASSERT(g_first == exp, "C09: relayed verdict = first verdict record, downgraded by the recipient record (s -> Z, h -> D); unparseable -> D");
  V_COVER(g_first == 'K'); V_COVER(res == 'K' && buf[0] == 's'); V_COVER(len == NB && g_first == 'Z');
}
