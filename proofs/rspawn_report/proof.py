def mk(name, nb, tier):
    return dict(name=name, properties=["C09"], units=["harness.c"], mode="plain", defines=["NB=%d" % nb], unwind=nb + 2, cbmc_unwindset=["strlen.0:48"], tier=tier,
                title="qmail-rspawn.c report(): verdict relayed for every wait status and every qmail-remote output of <= %d bytes" % nb,
                functions=["qmail-rspawn.c:report"], timeout=900, min_tagged=6,
                bounded="qmail-remote output of at most %d bytes over the full byte alphabet (the exit-status part is complete: every wait status)" % nb,
                canaries=[
                    dict(name="last-verdict-record-wins", file="qmail-rspawn.c", literal=True,
                         pattern="     if (s[j] == 'K') { result = 1; break; }\n     if (s[j] == 'Z') { result = 0; break; }\n     if (s[j] == 'D') break;",
                         repl="     if (s[j] == 'K') { result = 1; }\n     if (s[j] == 'Z') { result = 0; }\n     if (s[j] == 'D') result = -1;", expect=r"C09"),
                    dict(name="crash-is-permanent", file="qmail-rspawn.c", literal=True, pattern='"Zqmail-remote crashed.\\n"', repl='"Dqmail-remote crashed.\\n"', expect=r"C09: a crashed"),
                    dict(name="soft-recipient-upgraded", file="qmail-rspawn.c", literal=True, pattern="case 's': orr = 0; break;", repl="case 's': orr = 1; break;", expect=r"C09"),
                ] if tier == "quick" else [])
PROOFS = [mk("rspawn_report", 8, "quick"), mk("rspawn_report_16", 16, "thorough")]
