#include "verif.h"
#include "stralloc.h"
#ifdef P_RHINIT
extern int g_crf;
int control_readfile(stralloc *sa, char *fn, int flagme) { V_ASSERT(fn[8] == 'r' && !flagme, "C08: supporting: control/rcpthosts is read"); g_crf = ND_INT(); V_ASSUME(g_crf == 1 || g_crf == 0 || g_crf == -1); return g_crf; }
#endif
