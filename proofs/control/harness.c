/* C08 C10: control.c control_readfile() (the reader of rcpthosts, locals, virtualdomains, badmailfrom, ...) and rcpthosts.c rcpthosts_init().
 * Real files compiled unmodified.  The file is an oracle: getln yields lines of any length and content (one allocation of arbitrary
 * capacity), every call may fail. */
#include "verif.h"
#include <errno.h>
#include <stdlib.h>
#include "control.c"
#ifdef P_RHINIT
#include "rcpthosts.c"
#endif

#ifdef P_READFILE
char *g_lb; unsigned g_cap, g_K; int g_opened, g_open_noent, g_eof, g_failed, g_closed, g_ncat, g_me_used, g_lastmatch, g_pending_line, g_pending_wanted;
static stralloc out;
int stralloc_copys(stralloc *sa, char *s) { V_ASSERT(sa == &out && !s[0], "C10: the result starts empty (a reread replaces, never appends to, the old contents)"); if (ND_BOOL()) { g_failed = 1; return 0; } out.len = 0; return 1; }
int stralloc_copy(stralloc *sa, stralloc *sb) { V_ASSERT(sa == &out && sb == &me, "C10: supporting: default from control/me"); if (ND_BOOL()) { g_failed = 1; return 0; } g_me_used = 1; return 1; }
int stralloc_append(stralloc *sa, char *c)
{
  V_ASSERT(!*c, "C10: supporting: entries are NUL-terminated");
  if (ND_BOOL()) { g_failed = 1; return 0; }
  if (sa == &line) { V_ASSERT(line.s == g_lb && line.len < g_cap, "C10: supporting"); g_lb[line.len++] = 0; }
  return 1;
}
int stralloc_cat(stralloc *sa, stralloc *sb)
{
  V_ASSERT(sa == &out && sb == &line && g_pending_line, "C10: each line of the file is stored at most once");
  V_ASSERT(g_lb[0] != 0 && g_lb[0] != '#', "C10: blank lines and comment lines are not entries");
  V_ASSERT(line.len >= 2 && g_lb[line.len - 1] == 0 && g_lb[line.len - 2] != ' ' && g_lb[line.len - 2] != '\t' && g_lb[line.len - 2] != '\n', "C10: an entry is stored NUL-terminated with its trailing white space removed");
  g_pending_line = 0;
  if (ND_BOOL()) { g_failed = 1; return 0; }
  if (g_ncat < 2) ++g_ncat; return 1;
}
int open_read(char *fn) { int r = ND_INT(); if (r == 0) { g_opened = 1; return 5; } if (r == 1) { g_open_noent = 1; errno = ENOENT; return -1; } { int e = ND_INT(); V_ASSUME(e != ENOENT); errno = e; g_failed = 1; return -1; } }
int close(int fd) { V_ASSERT(fd == 5 && g_opened && !g_closed, "C10: supporting: the file is closed once"); g_closed = 1; return 0; }
int getln(substdio *ss, stralloc *sa, int *match, int sep)
{
  unsigned n = ND_UINT();
  V_ASSERT(sa == &line && sep == '\n' && g_opened && !g_eof && !g_failed, "C10: supporting: lines are read until end of file, nothing after an error");
  V_ASSERT(!g_pending_line || line.len == 0 || g_lb[0] == 0 || g_lb[0] == '#', "C10: every entry line (not blank, not a comment) read from the file is stored before the next one is read");
  if (ND_BOOL()) { g_failed = 1; return -1; }
  V_ASSUME(n <= g_cap - 2); line.s = g_lb; line.a = g_cap; line.len = n;   /* contents: arbitrary (the loop contract havocs the buffer at every iteration) */
  *match = ND_BOOL(); if (*match) { V_ASSUME(n >= 1 && g_lb[n - 1] == '\n'); } else g_eof = 1;
  g_lastmatch = *match; g_pending_line = 1; return 0;
}
void h_readfile(void)
{
  int r; int flagme = ND_BOOL(); static char fn[] = "f";
  g_cap = ND_UINT(); V_ASSUME(g_cap >= 4 && g_cap <= 0x7fffffff); g_lb = malloc(g_cap); V_ASSUME(g_lb != 0);
  g_opened = g_open_noent = g_eof = g_failed = g_closed = g_ncat = g_me_used = g_pending_line = g_pending_wanted = 0; meok = ND_BOOL(); out.s = 0; out.len = 7; out.a = 0;
  r = control_readfile(&out, fn, flagme);
  V_ASSERT(r == 1 || r == 0 || r == -1, "C10: supporting");
  V_ASSERT((r == -1) == (g_failed != 0), "C08,C10: -1 exactly when something failed (out of memory, open or read error): the caller must not go on with a partial list");
  V_ASSERT((r == 0) == (!g_failed && g_open_noent && !(flagme && meok)), "C08,C10: 0 exactly when the file does not exist (and no default applies) - an existing file, however empty, is never reported as missing");
  if (r == 1 && g_opened) V_ASSERT(g_eof && g_closed && (!g_pending_line || line.len == 0 || g_lb[0] == 0 || g_lb[0] == '#'), "C08,C10: 1 for an existing file only after it was read to its end, every entry stored");
  if (g_opened) V_ASSERT(g_closed, "C10: supporting: the file is closed on every path");
  V_COVER(r == 1 && g_opened && g_ncat == 0); V_COVER(r == 1 && g_ncat >= 2); V_COVER(r == 1 && g_me_used);
}
#endif

#ifdef P_RHINIT
int g_crf, g_cminit, g_opened;
int stralloc_copys(stralloc *sa, char *s) { return 1; } int stralloc_copy(stralloc *a, stralloc *b) { return 1; } int stralloc_append(stralloc *sa, char *c) { return 1; } int stralloc_cat(stralloc *a, stralloc *b) { return 1; }
int getln(substdio *ss, stralloc *sa, int *m, int sep) { return -1; } int close(int fd) { return 0; }
int constmap_init(struct constmap *cm, char *s, int len, int flagcolon) { V_ASSERT(cm == &maprh && g_crf == 1 && s == rh.s && len == (int)rh.len && !flagcolon, "C08: the rcpthosts table is built from the whole file just read"); g_cminit = 1; return ND_BOOL(); }
int open_read(char *fn) { int r = ND_INT(); V_ASSERT(fn[8] == 'm', "C08: supporting: morercpthosts.cdb is opened"); g_opened = 1; if (r == 0) return 6; if (r == 1) { errno = ENOENT; return -1; } { int e = ND_INT(); V_ASSUME(e != ENOENT); errno = e; return -1; } }
void h_rhinit(void)
{
  int r; g_cminit = g_opened = 0; g_crf = 7;
  r = rcpthosts_init();
  V_ASSERT(g_crf == 1 || g_crf == 0 || g_crf == -1, "C08: supporting");
  if (g_crf == 1 && r == 0) V_ASSERT(flagrh == 1 && g_cminit && g_opened, "C08: when control/rcpthosts exists - even empty - relaying is gated: the table is built and morercpthosts.cdb consulted");
  if (g_crf == 0) V_ASSERT(flagrh == 0 && r == 0 && !g_cminit, "C08: only a missing control/rcpthosts opens the gate (documented)");
  if (g_crf == -1) V_ASSERT(flagrh == -1 && r == -1, "C08: an unreadable control/rcpthosts is an error, not an open gate");
  if (r != 0 && r != 1) V_ASSERT(flagrh == -1, "C08: errors leave the gate in the error state");
  V_COVER(g_crf == 1 && r == 0 && fdmrh == -1);
}
#endif
