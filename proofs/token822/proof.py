PROOFS = [
  dict(name="token822_unquote", properties=["C20", "C17"], entry="h_unquote", units=["harness.c"], mode="plain", unwind=6, timeout=600, min_tagged=3,
       title="token822.c token822_unquote(): the filling pass stays inside what the sizing pass reserved, output = concatenation of the token texts, for every list of <= 4 tokens of <= 3 bytes",
       functions=["token822.c:token822_unquote"], bounded="token lists of at most 4 tokens, each text of at most 3 bytes over the full byte alphabet, every token type (an unbounded proof needs the sum of the sizes as an inductive precondition: DESIGN section 9)",
       replaced=["stralloc_ready (exactly the requested size; may fail)"],
       canaries=[dict(name="literal-brackets-not-counted", file="token822.c", literal=True, pattern="     case TOKEN822_LITERAL:\n       len += 2;\n     case TOKEN822_ATOM: case TOKEN822_QUOTE:", repl="     case TOKEN822_LITERAL:\n     case TOKEN822_ATOM: case TOKEN822_QUOTE:", expect=r"."),
                 dict(name="comment-text-copied", file="token822.c", literal=True, pattern="     case TOKEN822_ATOM: case TOKEN822_QUOTE: case TOKEN822_LITERAL:\n       if (t->type == TOKEN822_LITERAL) *s++ = '[';", repl="     case TOKEN822_ATOM: case TOKEN822_QUOTE: case TOKEN822_LITERAL: case TOKEN822_COMMENT:\n       if (t->type == TOKEN822_LITERAL) *s++ = '[';", expect=r".")]),
]
