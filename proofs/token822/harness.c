/* C20 C17: token822.c token822_unquote() - sizing pass vs. filling pass (bounded stand-in: <= NT tokens of <= NS bytes).
 * The real file is compiled unmodified.  stralloc_ready records exactly the requested number of bytes as the capacity; an overrun by a
 * single byte violates 'len <= a' (the filling pass writes contiguously from the start).  An unbounded proof would need sum(sizes) as a quantified/inductive precondition (DESIGN section 9). */
#include "verif.h"
#include <stdlib.h>
#include "token822.c"
#ifndef NT
#define NT 4
#endif
#ifndef NS
#define NS 3
#endif
static int g_req, g_ready_fail; static char g_out[NT * (NS + 2) + 8];
int stralloc_ready(stralloc *sa, unsigned int n)
{
  g_req = (int)n;
  if (ND_BOOL()) { g_ready_fail = 1; return 0; }
  sa->s = g_out; sa->a = n; return 1;   /* fixed object (a symbolic-size allocation makes the SAT encoding explode); the tight bound is the assertion len <= a below - writes are contiguous from the start */
}
void h_unquote(void)
{
  struct token822 tk[NT]; char txt[NT][NS]; token822_alloc ta; stralloc sa; int i, j, r, k = 0; char expb = 0; int havexp = 0;
  unsigned n = ND_UINT() % (NT + 1); int P = ND_INT();   /* P: an arbitrary output position whose byte is compared with the reference */
  g_ready_fail = 0; g_req = -1;
  for (i = 0; i < NT; ++i) {
    tk[i].type = ND_INT(); V_ASSUME(tk[i].type >= TOKEN822_ATOM && tk[i].type <= TOKEN822_DOT);
    tk[i].slen = ND_INT(); V_ASSUME(tk[i].slen >= 0 && tk[i].slen <= NS); tk[i].s = txt[i];
    for (j = 0; j < NS; ++j) txt[i][j] = ND_CHAR();
  }
#define EMIT(c) do { if (k == P) { expb = (c); havexp = 1; } ++k; } while (0)
  /* reference, written from the documented meaning: special tokens are their character, atoms/quoted strings their text, domain literals their text in brackets, comments vanish */
  for (i = 0; i < NT; ++i) if ((unsigned)i < n) {
    int t = tk[i].type;
    if (t == TOKEN822_COMMA) EMIT(','); else if (t == TOKEN822_AT) EMIT('@'); else if (t == TOKEN822_DOT) EMIT('.'); else if (t == TOKEN822_LEFT) EMIT('<');
    else if (t == TOKEN822_RIGHT) EMIT('>'); else if (t == TOKEN822_SEMI) EMIT(';'); else if (t == TOKEN822_COLON) EMIT(':');
    else if (t != TOKEN822_COMMENT) { if (t == TOKEN822_LITERAL) EMIT('['); for (j = 0; j < NS; ++j) if (j < tk[i].slen) EMIT(txt[i][j]); if (t == TOKEN822_LITERAL) EMIT(']'); }
  }
  ta.t = tk; ta.len = n; ta.a = NT; sa.s = 0; sa.len = 0; sa.a = 0;
  r = token822_unquote(&sa, &ta);
  V_ASSERT((r == -1) == g_ready_fail && (r == 1 || r == -1), "C20: token822_unquote fails exactly when the allocation fails");
  if (r == 1) {
    V_ASSERT(sa.len <= sa.a && g_req == (int)sa.a, "C20: the filling pass of token822_unquote writes no more bytes than the sizing pass reserved");
    V_ASSERT((int)sa.len == k, "C17: the unquoted form is the concatenation of the token texts (literals in brackets, comments dropped)");
    if (havexp) V_ASSERT(sa.s[P] == expb, "C17: every byte of the unquoted form is the corresponding byte of the concatenated token texts");
  }
  V_COVER(r == 1 && k == NT * (NS + 2)); V_COVER(r == 1 && n == NT && k == 0);
}
