PROOFS = [
  dict(name="gfrom_l1", properties=["C12"], entry="h_l1", units=["harness.c", "repo:str_start.c"], mode="dfcc",
       enforce=["gfrom/gfrom__contract"], unwindset=["strncmp.0:6"],
       loops=[dict(function="gfrom", head="while ((len > 0) && (*s == '>'))",
                   invariants="0 <= len && len <= g_len0 && s == g_s0 + (g_len0 - len)", assigns="s, len", decreases="len", symbols=["s", "len"])],
       title="gfrom.c gfrom(): lines of any length; without a leading > the result is 'starts with From_'; memory-safe read-only scan",
       functions=["gfrom.c:gfrom"], covers=False, min_tagged=0, timeout=120,
       canaries=[dict(name="four-byte-compare", file="gfrom.c", literal=True, pattern='return (len >= 5) && !str_diffn(s,"From ",5);', repl='return (len >= 4) && !str_diffn(s,"From ",4);', expect=r".")]),
  dict(name="gfrom_l2", properties=["C12"], entry="h_l2", units=["harness.c"], mode="plain", unwind=26, timeout=300, min_tagged=1,
       title="gfrom.c gfrom(): gfrom('>' + l) == gfrom(l) for every line of <= 24 bytes",
       functions=["gfrom.c:gfrom"], bounded="lines of at most 24 bytes over the full byte alphabet",
       canaries=[dict(name="no-gt-skipping", file="gfrom.c", literal=True, pattern=" while ((len > 0) && (*s == '>')) { ++s; --len; }\n", repl="", expect=r"C12")]),
]
