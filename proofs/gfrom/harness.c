/* C12: gfrom.c - the mbox "From_" quoting predicate  >*From_ .
 * L1 (unbounded): if the line does not start with '>' the result is "starts with From_ and has >= 5 bytes".
 * L2 (bounded): if it starts with '>' the result equals gfrom of the rest.  Together (induction over the number of
 * leading '>', hand argument) gfrom(l) <=> l matches >*From_ , which is exactly what the mbox(5) reader unquotes. */
#include "verif.h"
#include "gfrom.c"

int g_len0; char *g_s0;
int gfrom__contract(char *s, int len)
__CPROVER_requires(len >= 0 && len <= 2000000000 && __CPROVER_is_fresh(s, len ? len : 1) && g_len0 == len && g_s0 == s)
__CPROVER_ensures(__CPROVER_return_value == 0 || __CPROVER_return_value == 1)
__CPROVER_ensures((len == 0 || s[0] != '>') ==> (__CPROVER_return_value == (len >= 5 && s[0] == 'F' && s[1] == 'r' && s[2] == 'o' && s[3] == 'm' && s[4] == ' ')))
__CPROVER_assigns()
;

void h_l1(void) { char *s; int len; gfrom(s, len); }

#ifndef NL
#define NL 24
#endif
void h_l2(void)
{
  static char line[NL];
  int len = ND_INT(), k;
  V_ASSUME(1 <= len && len <= NL);
  for (k = 0; k < NL; ++k) line[k] = ND_CHAR();
  V_ASSUME(line[0] == '>');
  V_ASSERT(gfrom(line, len) == gfrom(line + 1, len - 1), "C12: a line starting with > matches >*From_ exactly if the rest of it does");
  V_COVER(gfrom(line, len) == 1 && len > 8);
}
