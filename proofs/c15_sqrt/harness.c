/* C15: squareroot() and nextretry() of qmail-send.c (compiled unmodified into this unit) */
#include "verif.h"
#include "qmail-send.c"

/* contract of squareroot, enforced in proof sqrt_squareroot and used (replaced) in sqrt_nextretry */
datetime_sec squareroot__contract(datetime_sec x)
__CPROVER_requires(0 <= x && x < 4294967296L)
__CPROVER_ensures(0 <= __CPROVER_return_value && __CPROVER_return_value <= 65535)
__CPROVER_ensures(__CPROVER_return_value * __CPROVER_return_value <= x)
__CPROVER_ensures(x < (__CPROVER_return_value + 1) * (__CPROVER_return_value + 1))
__CPROVER_assigns()
;

void h_squareroot(void)
{
  datetime_sec x = ND_LONG();
  datetime_sec r;
  V_ASSUME(0 <= x && x < 4294967296L);
  r = squareroot(x);
  V_ASSERT(0 <= r && r <= 65535, "C15: floor(sqrt(age)) fits 16 bits for every age below 2^32 seconds");
  V_ASSERT(r * r <= x, "C15: squareroot(x)^2 <= x");
  V_ASSERT(x < (r + 1) * (r + 1), "C15: x < (squareroot(x)+1)^2");
  V_COVER(r == 65535);
  V_COVER(r == 0);
}

void h_nextretry(void)
{
  datetime_sec birth = ND_LONG();
  int c = ND_INT();
  datetime_sec res, skip, d;
  /* domain: clock and birth within [0, 2^40) seconds, message younger than 2^32 seconds (136 years) */
  V_ASSUME(0 <= recent && recent < (1L << 40) && 0 <= birth && birth < (1L << 40));
  V_ASSUME(birth > recent || recent - birth < 4294967296L);
  V_ASSUME(c == 0 || c == 1);
  /* initial values of the channel table (checked against the initialiser by proof send_initials) */
  V_ASSUME(chanskip[0] == 10 && chanskip[1] == 20);
  skip = chanskip[c];
  res = nextretry(birth, c);
  V_ASSERT(res > recent, "C15: the next retry time always lies strictly in the future");
  V_ASSERT(res >= birth + skip * skip, "C15: retry no earlier than birth + skip^2");
  d = res - birth;
#ifdef EXACT
  if (birth <= recent) {
    /* res = birth + (r+skip)^2 with r = floor(sqrt(age)):  (r+skip)^2 = d  and  r^2 <= age < (r+1)^2 */
    datetime_sec age = recent - birth;
    datetime_sec r = squareroot(age);        /* same contract: determines r uniquely */
    V_ASSERT(d == (r + skip) * (r + skip), "C15: next retry = birth + (floor(sqrt(age)) + skip)^2");
  } else
    V_ASSERT(d == skip * skip, "C15: a message born in the future is retried at birth + skip^2");
#endif
  V_COVER(birth <= recent && c == 1);
}

void h_initials(void)
{
  V_ASSERT(chanskip[0] == 10 && chanskip[1] == 20, "C15: back-off offsets are 10 (local) and 20 (remote)");
  V_ASSERT(lifetime == 604800, "C15: default queue lifetime is 604800 s");
  V_ASSERT(CHANNELS == 2, "C15: supporting: two channels");
  V_ASSERT(concurrency[0] == 10 && concurrency[1] == 20 && concurrencyused[0] == 0 && concurrencyused[1] == 0, "C04: initial concurrency table");
}
