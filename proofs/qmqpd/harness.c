/* C07 / C20: qmail-qmqpd.c - getbuf() (one netstring into the 1000-byte buffer) and main() (K iff queued; a bad
 * address fails the whole submission).  Real file compiled unmodified; the network hands out arbitrary bytes. */
#include "verif.h"
#include <errno.h>
#include "qmail-qmqpd.c"

int g_exit = -1;
ssize_t substdio_get(substdio *s, char *b, size_t n) { V_ASSERT(s == &ssin && n == 1, "C20: supporting"); *b = ND_CHAR(); return 1; }
void _exit(int e) { g_exit = e; V_ASSUME(0); }

#ifdef P_GETBUF
unsigned long g_len; int g_first_nul = -1;
unsigned int byte_chr(char *s, unsigned int n, int c)
{ /* contract of byte_chr (proof lib_byte_chr + first-occurrence clause): first index holding c, n if none */
  unsigned r = ND_UINT();
  V_ASSERT(s == buf && n <= 999, "C20: supporting: the scan stays inside the buffer");
  V_ASSUME(r <= n && (r == n || buf[r] == (char)c));
  V_ASSUME(__CPROVER_forall { unsigned k; (k < 1000) ==> ((k < r) ==> buf[k] != (char)c) });
  return r;
}
void h_getbuf(void)
{
  int r; unsigned K = ND_UINT();
  bytesleft = ND_ULONG();
  r = getbuf();
  V_ASSERT(r == 0 || r == 1, "C07: supporting");
  if (g_len >= 1000) V_ASSERT(r == 0, "C07: an address of 1000 bytes or more is reported as unacceptable");
  else { V_ASSERT(buf[g_len] == 0, "C20: supporting: the address is NUL-terminated inside the buffer");
         if (r == 1 && K < g_len) V_ASSERT(buf[K] != 0, "C07: an address containing a NUL byte is reported as unacceptable"); }
  V_COVER(r == 1 && g_len == 999); V_COVER(r == 0 && g_len < 1000);
}
#endif

#ifdef P_MAIN
int g_open, g_failed, g_from, g_nto, g_closed, g_close_ok, g_bad, g_nput; char g_result0;
int chdir(const char *p) { return ND_BOOL() ? -1 : 0; } void sig_pipeignore(void) {} void sig_alarmcatch(void (*f)()) {} unsigned int alarm(unsigned s) { return 0; }
time_t time(time_t *t) { return 0; }
int qmail_open(struct qmail *q) { if (ND_BOOL()) return -1; g_open = 1; return 0; }
unsigned long qmail_qp(struct qmail *q) { return 9; }
void qmail_put(struct qmail *q, char *s, size_t n) {} void qmail_puts_stub(void) {}
void qmail_fail(struct qmail *q) { g_failed = 1; }
void qmail_from(struct qmail *q, char *s) { V_ASSERT(g_open && !g_from, "C07: supporting"); g_from = 1; }
void qmail_to(struct qmail *q, char *s) { V_ASSERT(g_from && !g_closed && s == buf, "C07: supporting"); if (g_nto < 1000) ++g_nto; }
char *qmail_close(struct qmail *q)
{
  V_ASSERT(g_from && !g_closed, "C07: supporting");
  V_ASSERT(!g_bad || g_failed, "C07: an over-long or NUL-containing sender or recipient fails the whole submission: nothing is queued");
  g_closed = 1; g_close_ok = ND_BOOL() && !g_failed;   /* contract of qmail_close (proof qmail_close) */
  return g_close_ok ? "" : (ND_BOOL() ? "Dperm" : "Ztemp");
}
unsigned int fmt_ulong(char *s, unsigned long u) { return 1 + ND_UINT() % 20; }
unsigned int fmt_str(char *s, char *t) { unsigned k = 0; while (t[k] && k < 8) ++k; if (s && k) s[0] = t[0]; return k; }
size_t strlen(const char *s) { unsigned k = 0; while (s[k] && k < 64) ++k; return k; }
int substdio_put(substdio *s, const char *b, size_t n)
{
  V_ASSERT(s == &ssout && g_closed, "C07: the reply is sent only after the submission was closed");
  if (g_nput == 2) { g_result0 = b[0];
    V_ASSERT((g_result0 == 'K') == (g_close_ok != 0), "C07: QMQP answers K if and only if qmail_close reported the message queued; a queued message is never answered with a failure"); }
  V_COVER(g_nput == 2 && g_result0 == 'K'); V_COVER(g_nput == 2 && g_bad);
  if (g_nput < 10) ++g_nput; return 0;
}
int substdio_flush(substdio *s) { return 0; }
void h_main(void)
{
  g_open = g_failed = g_from = g_nto = g_closed = g_close_ok = g_bad = g_nput = 0; flagok = 1;
  main();
}
#endif
