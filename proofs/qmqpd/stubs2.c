#include "verif.h"
#ifdef P_GETBUF
extern unsigned long g_len;
unsigned long getlen(void) { g_len = ND_ULONG(); V_ASSUME(g_len <= 2000000009ul); return g_len; }   /* contract (proof qmqpd getlen = same code as lib_qmtpd_getlen) */
#endif
#ifdef P_MAIN
extern int g_bad; extern unsigned long bytesleft; extern char buf[1000];
unsigned long getlen(void) { unsigned long r = ND_ULONG(); V_ASSUME(r <= 2000000009ul); return r; }
void getbyte(char *ch) { *ch = ND_CHAR(); if (ND_BOOL()) V_ASSUME(0); }   /* may hit the end of the package and exit 100 */
void getcomma(void) { if (ND_BOOL()) V_ASSUME(0); }
void identify(void) {}
/* contract of getbuf (proof qmqpd_getbuf): 1 = acceptable NUL-terminated address in buf, 0 = too long or contains NUL; consumes bytes of the package */
int getbuf(void) { int ok = ND_BOOL(); unsigned long nl = ND_ULONG(); V_ASSUME(nl < bytesleft); bytesleft = nl; if (!ok) g_bad = 1; return ok; }
#endif
