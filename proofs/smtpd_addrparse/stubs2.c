#include "verif.h"
void die_nomem(void) { V_ASSUME(0); }
