/* C08 (bounded stand-in): qmail-smtpd.c addrparse(): local-IP-literal substitution and the length limit, for every
 * command argument of at most NA bytes.  stralloc operations on `addr` use a fixed-capacity model (one static buffer). */
#include "verif.h"
#include "qmail-smtpd.c"

#ifndef NA
#define NA 14
#endif
#define CAP 64
static char abuf[CAP];
static char arg[NA + 1];
static char lipbuf[4] = { 'l', '.', 'x', 0 };
int g_subst, g_ipme_called, g_ipme_yes, g_len_before, g_at;
unsigned g_liplen;

int stralloc_copys(stralloc *sa, char *s) { V_ASSERT(sa == &addr && !s[0], "C08: supporting"); addr.s = abuf; addr.a = CAP; addr.len = 0; return 1; }
int stralloc_append(stralloc *sa, char *c)
{
  V_ASSERT(sa == &addr, "C08: supporting");
  if (addr.len < CAP) { if (addr.len + 1 < CAP) abuf[addr.len] = *c; ++addr.len; return 1; }   /* count-only beyond the model buffer */
  ++addr.len; return 1;
}
int stralloc_cat(stralloc *sa, stralloc *sb)
{
  unsigned k, at = sa->len - 1;
  int lit_ok;
  V_ASSERT(sa == &addr && sb == &liphost, "C08: supporting: only localiphost replaces a domain");
  V_ASSERT(g_ipme_called && g_ipme_yes, "C08: a domain literal is replaced only if it is one of this host's IP addresses");
  /* the text after the last @ (before truncation: g_len_before includes the NUL) must be exactly [digits and dots] */
  V_ASSERT(abuf[at] == '@' && abuf[at + 1] == '[', "C08: only a bracketed domain literal is replaced");
  lit_ok = abuf[g_len_before - 2] == ']';
  for (k = at + 2; k + 2 < (unsigned)g_len_before && k < CAP; ++k)
    if (!((abuf[k] >= '0' && abuf[k] <= '9') || abuf[k] == '.')) lit_ok = 0;
  V_ASSERT(lit_ok, "C08: the domain is replaced only if the bracketed literal is the whole domain (nothing after the closing bracket)");
  g_subst = 1;
  addr.len += g_liplen;      /* count-only: the content of localiphost is configuration */
  return 1;
}
int ipme_is(struct ip_address *ip) { g_ipme_called = 1; g_ipme_yes = ND_BOOL(); g_len_before = addr.len; return g_ipme_yes; }

void harness(void)
{
  int r, k;
  for (k = 0; k < NA; ++k) arg[k] = ND_CHAR();
  arg[NA] = 0;
  liphostok = ND_BOOL();
  g_liplen = ND_UINT(); V_ASSUME(g_liplen <= 1000);
  liphost.s = lipbuf; liphost.len = g_liplen; liphost.a = 4;
  g_subst = g_ipme_called = g_ipme_yes = 0;
  addr.s = 0; addr.len = 0; addr.a = 0;
  r = addrparse(arg);
  V_ASSERT(r == 0 || r == 1, "C08: supporting");
  if (r == 1) V_ASSERT(addr.len <= 900, "C08: an address longer than the limit (after the local-IP substitution) is refused");
  V_ASSERT(addr.len >= 1, "C08: supporting: the parsed address is NUL-terminated");
  if (!g_subst && addr.len < CAP) V_ASSERT(abuf[addr.len - 1] == 0, "C08: supporting: the parsed address is NUL-terminated");
  if (liphostok && g_ipme_called && g_ipme_yes) V_ASSERT(g_subst, "C08: a local IP-literal domain is replaced by localiphost (before the policy check sees it)");
  if (!liphostok) V_ASSERT(!g_subst, "C08: supporting: no substitution without control/localiphost");
  V_COVER(g_subst && r == 1); V_COVER(g_subst && r == 0); V_COVER(g_ipme_called && !g_ipme_yes);
}
