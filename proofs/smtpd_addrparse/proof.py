PROOF = dict(
    properties=["C08"], name="smtpd_addrparse", slow=True,
    title="qmail-smtpd.c addrparse(): localiphost substitution only for a complete local bracketed literal; length limit after substitution",
    functions=["qmail-smtpd.c:addrparse", "ip.c:ip_scanbracket", "ip.c:ip_scan", "byte_rchr.c:byte_rchr", "str_chr.c:str_chr", "scan_ulong.c:scan_ulong"],
    units=["harness.c", "stubs2.c", "repo:ip.c", "repo:byte_rchr.c", "repo:str_chr.c", "repo:scan_ulong.c"],
    remove_bodies={"harness.c": ["die_nomem"]},
    mode="plain", defines=["NA=14"], unwind=20, timeout=600, min_tagged=5,
    bounded="command arguments of at most 14 bytes over the full byte alphabet (address buffer model 64 bytes; localiphost length up to 1000, count only)",
    canaries=[
        dict(name="literal-need-not-end-the-address", file="qmail-smtpd.c", literal=True,
             pattern="        if (!addr.s[i + 1 + ip_scanbracket(addr.s + i + 1,&ip)])\n", repl="        if (ip_scanbracket(addr.s + i + 1,&ip))\n", expect=r"C08: the domain is replaced only if"),
        dict(name="length-check-before-substitution", edits=[
            dict(file="qmail-smtpd.c", literal=True, pattern="  if (liphostok) {\n    i = byte_rchr(addr.s,addr.len,'@');", repl="  if (addr.len > 900) return 0;\n  if (liphostok) {\n    i = byte_rchr(addr.s,addr.len,'@');"),
            dict(file="qmail-smtpd.c", literal=True, pattern="  if (addr.len > 900) return 0;\n  return 1;", repl="  return 1;")],
            expect=r"C08: an address longer than the limit"),
    ],
)
