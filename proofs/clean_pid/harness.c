/* C02 / C18: qmail-clean.c cleanuppid() - the real file is compiled unmodified into this unit.
 * Environment: opendir/readdir hand out arbitrary directory entries, stat an arbitrary access time;
 * the stralloc stubs record what `line` holds (state 3: "pid/" + the current entry name + NUL);
 * unlink() carries the obligations. */
#include "verif.h"
#include "qmail-clean.c"

static struct dirent g_ent; static int g_dirobj; char g_lb[300];
long g_now; int g_ls, g_stat_ok, g_open, g_closed, g_unlinks, g_reads; long g_atime;

datetime_sec now(void) { return g_now; }
DIR *opendir(const char *p) { V_ASSERT(p[0] == 'p' && p[1] == 'i' && p[2] == 'd' && !p[3], "C02: supporting: only the pid directory is scanned"); if (ND_BOOL()) return 0; g_open = 1; return (DIR *)&g_dirobj; }
int closedir(DIR *d) { V_ASSERT(d == (DIR *)&g_dirobj && g_open && !g_closed, "C02: supporting: the directory is closed once"); g_closed = 1; return 0; }
struct dirent *readdir(DIR *d)
{
  V_ASSERT(d == (DIR *)&g_dirobj && g_open && !g_closed, "C02: supporting: reads the open pid directory");
  g_ls = 0; g_stat_ok = 0; if (g_reads < 100) ++g_reads;
  if (ND_BOOL()) return 0;
  __CPROVER_havoc_object(&g_ent); g_ent.d_name[255] = 0;
  return &g_ent;
}
int stralloc_copys(stralloc *sa, char *s) { V_ASSERT(sa == &line, "C18: supporting"); g_ls = 0; if (ND_BOOL()) return 0; sa->s = g_lb; sa->a = 300; g_ls = (s[0] == 'p' && s[1] == 'i' && s[2] == 'd' && s[3] == '/' && !s[4]) ? 1 : 0; return 1; }
int stralloc_cats(stralloc *sa, char *s) { V_ASSERT(sa == &line, "C18: supporting"); if (ND_BOOL()) { g_ls = 0; return 0; } g_ls = (g_ls == 1 && s == g_ent.d_name) ? 2 : 0; return 1; }
int stralloc_append(stralloc *sa, char *s) { V_ASSERT(sa == &line, "C18: supporting"); if (ND_BOOL()) { g_ls = 0; return 0; } g_ls = (g_ls == 2 && !*s) ? 3 : 0; return 1; }
int stat(const char *p, struct stat *st)
{
  V_ASSERT(p == line.s && g_ls == 3, "C18: only pid/<directory entry> is examined");
  if (ND_BOOL()) { V_HAVOC_ERRNO(); return -1; }
  g_atime = ND_LONG(); V_ASSUME(0 <= g_atime && g_atime <= 0x3fffffffffffffffL);   /* domain: access times that do not overflow time_t when 36 h are added */
  st->st_atime = g_atime; g_stat_ok = 1; return 0;
}
int unlink(const char *p)
{
  V_ASSERT(p == line.s && g_ls == 3, "C18: the periodic sweep removes nothing but pid/<directory entry>");
  V_ASSERT(g_stat_ok, "C02: a leftover is collected only after its access time has been read");
  V_ASSERT(g_stat_ok && g_now >= g_atime + 129600, "C02: a stale pid file is collected only 36 hours after its last access");
  V_ASSERT(!(g_ent.d_name[0] == '.' && (!g_ent.d_name[1] || (g_ent.d_name[1] == '.' && !g_ent.d_name[2]))), "C18: . and .. are never removed");
  if (g_unlinks < 100) ++g_unlinks;
  V_COVER(g_reads >= 2);
  return ND_BOOL() ? 0 : -1;
}
void _exit(int c) { __CPROVER_assume(0); }
void h_pid(void)
{
  g_now = ND_LONG(); V_ASSUME(0 <= g_now && g_now <= 0x3fffffffffffffffL);
  g_open = g_closed = g_unlinks = g_reads = 0; g_ls = 0; g_stat_ok = 0;
  cleanuppid();
  V_ASSERT(g_open == g_closed, "C02: supporting: the pid directory is closed again");
  V_COVER(g_unlinks >= 1); V_COVER(!g_open);
}
