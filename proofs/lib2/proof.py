PROOFS = [
  dict(name="lib_str_chr", properties=["C20"], entry="h_str_chr", defines=["P_STR_CHR"], units=["harness.c"], mode="dfcc", enforce=["str_chr/str_chr__contract"], timeout=300, min_tagged=0, covers=False,
       loops=[dict(function="str_chr", head="for (;;)", invariants="s == g_s0 && ch == g_c && __CPROVER_same_object(t, s) && __CPROVER_r_ok(t, 1) && s <= t && t <= s + g_N && s[g_N] == 0", assigns="t", symbols=["t", "s", "ch"])],
       cbmc_flags=["--no-pointer-primitive-check"],
       title="str_chr(): result <= length and pointing at the character or the terminating NUL, read-only scan that never passes the NUL, any string length (first-occurrence clause assumed where the contract is used)", functions=["str_chr.c:str_chr"],
       canaries=[dict(name="nul-test-dropped", file="str_chr.c", literal=True, pattern="    if (!*t) break; if (*t == ch) break; ++t;\n    if (!*t) break; if (*t == ch) break; ++t;", repl="    if (!*t) break; if (*t == ch) break; ++t;\n    if (*t == ch) break; ++t;", expect=r".")]),
]
