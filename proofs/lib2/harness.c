/* C20: str_chr.c str_chr() - the string scan whose contract the commands()/qmail-local proofs assume. Real files unmodified. */
#include "verif.h"
#ifdef P_STR_CHR
#include "str_chr.c"
char *g_s0; unsigned g_N; char g_c;
unsigned int str_chr__contract(char *s, int c)
__CPROVER_requires(g_N <= 2000000000u && __CPROVER_is_fresh(s, g_N + 1) && g_s0 == s && s[g_N] == 0 && g_c == (char)c)
__CPROVER_ensures(__CPROVER_return_value <= g_N)
__CPROVER_ensures(s[__CPROVER_return_value] == (char)c || s[__CPROVER_return_value] == 0)
__CPROVER_assigns()
;
void h_str_chr(void) { char *s; int c; str_chr(s, c); }
#endif
