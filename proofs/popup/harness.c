/* C19: qmail-popup.c - the pre-authentication dialogue.  Real file compiled unmodified. */
#include "verif.h"
#include <errno.h>
#include "qmail-popup.c"

int g_errs, g_oks, g_do, g_nput, g_exit = -1; char *g_do_user, *g_do_pass; unsigned g_do_userlen;
char argb[8], ub[8];
int g_ucopied, g_uterm;
int stralloc_copys(stralloc *sa, char *s) { V_ASSERT(sa == &username && s == argb, "C19: the user name stored is the argument of this USER command"); sa->s = ub; sa->a = 8; sa->len = 3; g_ucopied = 1; return 1; }
int stralloc_append(stralloc *sa, char *c) { V_ASSERT(sa == &username && !*c && g_ucopied, "C19: supporting"); sa->len = 4; g_uterm = 1; return 1; }
#ifndef P_DOANDDIE
int substdio_put(substdio *s, const char *b, size_t n) { if (s == &ssout && n >= 3 && b[0] == '-') ++g_errs; if (s == &ssout && n >= 3 && b[0] == '+') ++g_oks; return 0; }
int substdio_flush(substdio *s) { return 0; }
size_t strlen(const char *s) { unsigned k = 0; while (s[k] && k < 40) ++k; return k; }
void h_user(void)
{
  int seen0 = ND_BOOL(), k; for (k = 0; k < 7; ++k) argb[k] = ND_CHAR(); argb[7] = 0;
  seenuser = seen0; username.s = ub; username.len = 2; g_errs = g_oks = g_ucopied = g_uterm = g_do = 0;
  pop3_user(argb);
  if (!argb[0]) V_ASSERT(seenuser == seen0 && !g_ucopied && g_errs == 1 && !g_oks, "C19: a refused USER (no name) has no effect: it neither stores a name nor arms PASS");
  else V_ASSERT(seenuser == 1 && g_ucopied && g_uterm && g_oks == 1, "C19: USER stores the name and arms PASS");
  V_ASSERT(!g_do, "C19: USER alone never starts the password checker");
}
void h_pass(void)
{
  int k; for (k = 0; k < 7; ++k) argb[k] = ND_CHAR(); argb[7] = 0;
  seenuser = ND_BOOL(); username.s = ub; username.len = 1 + ND_UINT() % 7; g_errs = g_oks = g_do = 0;
  { int seen0 = seenuser;
  pop3_pass(argb);
  V_ASSERT(!g_do, "C19: supporting: reached only if the checker was not started");
  V_ASSERT(!seen0 || !argb[0], "C19: supporting: with USER given and a non-empty password the checker is started");
  V_ASSERT(g_errs == 1, "C19: PASS without a preceding accepted USER, or without a password, is refused"); }
}
void h_apop(void)
{
  int k; for (k = 0; k < 7; ++k) argb[k] = ND_CHAR(); argb[7] = 0;
  g_errs = g_do = 0;
  pop3_apop(argb);
  V_ASSERT(!g_do && g_errs == 1, "C19: APOP without a digest is refused");
}
void h_table(void)
{
  V_ASSERT(pop3commands[0].fun == pop3_user && pop3commands[1].fun == pop3_pass && pop3commands[2].fun == pop3_apop && pop3commands[3].fun == pop3_quit && pop3commands[4].fun == okay
           && pop3commands[5].text == 0 && pop3commands[5].fun == err_authoriz, "C19: before authentication only USER, PASS, APOP, QUIT and NOOP are honoured; everything else is refused");
  V_ASSERT(pop3commands[4].text[0] == 'n' && pop3commands[3].text[0] == 'q', "C19: supporting: table order");
}
#endif

#ifdef P_DOANDDIE
static char userb[8], passb[8]; int g_stage, g_flushed;
int close(int fd) { return 0; } int pipe(int p[2]) { if (ND_BOOL()) return -1; p[0] = 3; p[1] = 5; return 0; }
pid_t fork(void) { int r = ND_INT(); return r > 0 ? r : -1; }
size_t strlen(const char *s) { if (s == passb) return 4; return 3; }
int substdio_put(substdio *s, const char *b, size_t n)
{
  V_ASSERT(s == &ssup, "C19: supporting: credentials go to the checker's descriptor 3 pipe only");
  if (g_stage == 0) V_ASSERT(b == userb && (unsigned)n == 6, "C19: the user name is passed verbatim, with its NUL, first");
  else if (g_stage == 1) V_ASSERT(b == passb && (unsigned)n == 5, "C19: then the password (or digest) verbatim, with its NUL");
  else if (g_stage == 2) V_ASSERT(b[0] == '<' && (unsigned)n == 3, "C19: then the timestamp <unique hostname>");
  else if (g_stage == 3) V_ASSERT(b == unique, "C19: then the timestamp <unique hostname>");
  else if (g_stage == 4) V_ASSERT(b == hostname, "C19: then the timestamp <unique hostname>");
  else if (g_stage == 5) V_ASSERT(b[0] == '>' && (unsigned)n == 2, "C19: terminated by > NUL");
  else V_ASSERT(0, "C19: nothing else is sent to the checker");
  ++g_stage; return ND_BOOL() ? -1 : 0;
}
int substdio_flush(substdio *s) { V_ASSERT(g_stage == 6, "C19: supporting"); g_flushed = 1; return ND_BOOL() ? -1 : 0; }
void byte_zero(char *s, unsigned n) { V_ASSERT(g_flushed, "C19: supporting: credentials are wiped only after they were handed over"); }
int wait_pid(int *w, int pid) { *w = ND_INT(); return ND_BOOL() ? pid : -1; }
void _exit(int e) { V_ASSUME(0); }
void h_doanddie(void) { g_stage = g_flushed = 0; hostname = "h"; doanddie(userb, 6, passb); }
#endif
