#include "verif.h"
#ifndef P_DOANDDIE
extern int g_do; extern char *g_do_user, *g_do_pass; extern unsigned g_do_userlen; extern char argb[8], ub[8];
#include "stralloc.h"
extern stralloc username; extern int seenuser;
void doanddie(char *user, unsigned int userlen, char *pass)
{
  g_do = 1;
  if (user == ub) { V_ASSERT(seenuser && userlen == username.len && pass == argb && argb[0], "C19: USER/PASS: the checker gets the stored user name and this PASS argument, verbatim"); }
  else { unsigned k = 0; while (argb[k] && k < 8) ++k;
    V_ASSERT(user == argb && pass == argb + userlen && userlen == k + 1, "C19: APOP: the checker gets name and digest split at the first space, verbatim"); }
  V_COVER(1);
  V_ASSUME(0);
}
void die_nomem(void) { V_ASSUME(0); }
#endif
#ifdef P_DOANDDIE
void die(void) { V_COVER(1); V_ASSUME(0); } void die_pipe(void) { V_ASSUME(0); } void die_fork(void) { V_ASSUME(0); } void die_write(void) { V_ASSUME(0); }
void die_childcrashed(void) { V_ASSUME(0); } void die_badauth(void) { V_ASSUME(0); }
#endif
