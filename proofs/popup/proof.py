C = dict(properties=["C19"], mode="plain", units=["harness.c", "stubs2.c"], remove_bodies={"harness.c": ["doanddie", "die_nomem"]}, unwind=42, timeout=120)
PROOFS = [
  dict(C, name="popup_user", entry="h_user", min_tagged=3, title="qmail-popup.c pop3_user(): a refused USER has no effect; an accepted one stores the name and arms PASS", functions=["qmail-popup.c:pop3_user"], covers=False,
       canaries=[dict(name="refused-user-arms-pass", file="qmail-popup.c", literal=True, pattern="  if (!*arg) { err_syntax(); return; }\n  okay(0);\n  seenuser = 1;", repl="  seenuser = 1;\n  if (!*arg) { err_syntax(); return; }\n  okay(0);", expect=r"C19: a refused USER")]),
  dict(C, name="popup_pass", entry="h_pass", min_tagged=2, title="qmail-popup.c pop3_pass(): checker started only after an accepted USER, with the stored name and this password", functions=["qmail-popup.c:pop3_pass"],
       canaries=[dict(name="pass-without-user", file="qmail-popup.c", literal=True, pattern="  if (!seenuser) { err_wantuser(); return; }\n", repl="", expect=r"C19")]),
  dict(C, name="popup_apop", entry="h_apop", min_tagged=2, title="qmail-popup.c pop3_apop(): name and digest split at the first space, verbatim", functions=["qmail-popup.c:pop3_apop"], units=["harness.c", "stubs2.c", "repo:str_chr.c"]),
  dict(C, name="popup_table", entry="h_table", min_tagged=1, covers=False, title="qmail-popup.c: the pre-authentication command table", functions=["qmail-popup.c:pop3commands"]),
  dict(properties=["C19"], mode="plain", name="popup_doanddie", entry="h_doanddie", defines=["P_DOANDDIE"], units=["harness.c", "stubs2.c", "repo:substdio.c"],
       remove_bodies={"harness.c": ["die", "die_pipe", "die_fork", "die_write", "die_childcrashed", "die_badauth"]}, unwind=6, timeout=120, min_tagged=5,
       title="qmail-popup.c doanddie(): user NUL password NUL <unique hostname> NUL, in that order, verbatim, to the checker's pipe only", functions=["qmail-popup.c:doanddie"],
       canaries=[dict(name="password-before-user", file="qmail-popup.c", literal=True, pattern="  if (substdio_put(&ssup,user,userlen) == -1) die_write();\n  if (substdio_put(&ssup,pass,str_len(pass) + 1) == -1) die_write();", repl="  if (substdio_put(&ssup,pass,str_len(pass) + 1) == -1) die_write();\n  if (substdio_put(&ssup,user,userlen) == -1) die_write();", expect=r"C19")]),
]
