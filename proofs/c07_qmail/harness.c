/* C07: qmail.c (the client side of qmail-queue): qmail_close() result classification, qmail_put/from/to/fail.
 * The real qmail.c is compiled unmodified into this unit; constant loop bound (error text <= 256 bytes): complete
 * by unwinding. */
#include "verif.h"
#include <errno.h>
#include "qmail.c"

struct qmail qq;
int g_nul_attempted, g_nul_ok, g_put_failed, g_flush_failed, g_fde_closed, g_fdm_closed, g_errfd_closed;
int g_reaped, g_wstat, g_errbytes, g_bytes_to_fdm, g_bytes_to_fde, g_put_after_fail;

int substdio_put(substdio *s, const char *buf, size_t len)
{
  V_ASSERT(s == &qq.ss, "C07: supporting: puts go to the qmail-queue pipe");
  if (qq.flagerr) g_put_after_fail = 1;
  if (len == 1 && buf[0] == 0) g_nul_attempted = 1;
  if (s->fd == qq.fdm) g_bytes_to_fdm = 1; else if (s->fd == qq.fde) g_bytes_to_fde = 1;
  if (ND_BOOL()) { g_put_failed = 1; V_HAVOC_ERRNO(); return -1; }
  if (len == 1 && buf[0] == 0) g_nul_ok = 1;
  return 0;
}
int substdio_flush(substdio *s)
{
  if (ND_BOOL()) { g_flush_failed = 1; V_HAVOC_ERRNO(); return -1; }
  return 0;
}
ssize_t substdio_get(substdio *s, char *buf, size_t len)
{
  int r = ND_INT();
  V_ASSERT(s == &qq.ss && s->fd == qq.fderr && len == 1, "C07: supporting: the error text is read from qmail-queue's descriptor 6 pipe");
  if (r <= 0) { V_HAVOC_ERRNO(); return r < 0 ? -1 : 0; }
  *buf = ND_CHAR();
  V_INPUT_BYTE(*buf);
  ++g_errbytes;
  return 1;
}
int close(int fd)
{
  if (fd == qq.fde) g_fde_closed = 1;
  if (fd == qq.fdm) g_fdm_closed = 1;
  if (fd == qq.fderr) g_errfd_closed = 1;
  return 0;
}
int wait_pid(int *wstat, int pid)
{
  int w = ND_INT();
  V_ASSERT(g_fde_closed, "C07: the envelope pipe is closed before waiting for qmail-queue (else it would never see EOF)");
  V_ASSUME(0 <= w && w <= 65535);
  *wstat = w; g_wstat = w;
  V_INPUT_MARK(1000 + w);
  if (ND_BOOL()) { g_reaped = 1; return pid; }
  return -1;
}

static void init(void)
{
  g_nul_attempted = g_nul_ok = g_put_failed = g_flush_failed = g_fde_closed = g_fdm_closed = g_errfd_closed = 0;
  g_reaped = g_errbytes = g_bytes_to_fdm = g_bytes_to_fde = g_put_after_fail = 0;
  qq.flagerr = ND_BOOL();
  qq.pid = 1234; qq.fdm = 7; qq.fde = 8; qq.fderr = 9;
  qq.ss.fd = 8; qq.ss.x = qq.buf; qq.ss.n = sizeof qq.buf; qq.ss.p = 0;
}

void h_close(void)
{
  int flagerr0, exitcode, crashed, ok;
  char *r;
  init();
  flagerr0 = qq.flagerr;
  r = qmail_close(&qq);
  exitcode = g_wstat >> 8; crashed = g_wstat & 127;
  ok = g_reaped && !crashed && exitcode == 0 && !flagerr0 && !g_put_failed && !g_flush_failed;
  V_ASSERT(!flagerr0 || !g_nul_attempted, "C07: the envelope terminator is never written after a failure (qmail-queue then sees a truncated envelope and queues nothing)");
  V_ASSERT(r[0] != 0 || ok, "C07,C14,C03: success is reported only if qmail-queue was reaped, did not crash, exited 0 and nothing failed on the writer's side");
  V_ASSERT(r[0] != 0 || g_nul_ok, "C07,C14,C03: success is reported only if the envelope terminator was written");
  V_ASSERT(!ok || r[0] == 0, "C07: a message that was committed (exit 0, no failure) is acknowledged");
  V_ASSERT(r[0] == 0 || r[0] == 'D' || r[0] == 'Z', "C07: every failure text starts with D (permanent) or Z (temporary)");
  if (r[0] == 'D')
    V_ASSERT(g_reaped && !crashed && ((exitcode >= 11 && exitcode <= 40) || exitcode == 115 || exitcode == 82), "C07: permanent failure only for qmail-queue's permanent exit codes (11..40, 115, or 82 with a D text)");
  if (g_reaped && !crashed && ((exitcode >= 11 && exitcode <= 40) || exitcode == 115))
    V_ASSERT(r[0] == 'D', "C07: qmail-queue's permanent exit codes yield a permanent failure");
  if (!g_reaped || crashed)
    V_ASSERT(r[0] == 'Z', "C07: a crashed or lost qmail-queue yields a temporary failure");
  V_COVER(r[0] == 0);
  V_COVER(r[0] == 'D' && exitcode == 82);
  V_COVER(exitcode == 82 && g_errbytes > 2);
  V_COVER(g_errbytes == 256);
}

void h_from(void)
{
  char s[4];
  int flagerr0;
  init();
  qq.ss.fd = qq.fdm;
  flagerr0 = qq.flagerr;
  s[0] = ND_CHAR(); s[1] = ND_CHAR(); s[2] = ND_CHAR(); s[3] = 0;
  g_bytes_to_fdm = 0;
  qmail_from(&qq, s);
  V_ASSERT(g_fdm_closed, "C07: the message pipe is closed when the envelope starts (end of message for qmail-queue)");
  V_ASSERT(!g_bytes_to_fdm, "C07: no envelope byte goes to the message pipe");
  V_ASSERT(qq.ss.fd == qq.fde, "C07: envelope bytes go to the envelope pipe");
  V_ASSERT(!(flagerr0 || g_flush_failed) || (qq.flagerr && !g_bytes_to_fde), "C07: after a failed flush of the message no envelope is written");
  V_ASSERT(!(flagerr0 || g_flush_failed || g_put_failed) || qq.flagerr, "C07: failures are sticky");
  V_COVER(g_bytes_to_fde);
}

void h_put(void)
{
  char c = ND_CHAR();
  int flagerr0;
  init();
  flagerr0 = qq.flagerr;
  if (ND_BOOL()) { qmail_fail(&qq); flagerr0 = 1; }
  qmail_put(&qq, &c, 1);
  V_ASSERT(!g_put_after_fail, "C07: nothing is written to qmail-queue after a failure (qmail_fail, size limit, write error)");
  V_ASSERT(!(flagerr0 || g_put_failed) || qq.flagerr, "C07: failures are sticky");
  V_ASSERT(flagerr0 || g_put_failed || !qq.flagerr, "C07: supporting: no spurious failure");
}
