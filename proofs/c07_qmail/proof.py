C = dict(units=["harness.c", "repo:substdio.c"], mode="plain", properties=["C07"])
PROOFS = [
    dict(C, name="qmail_close", properties=["C07", "C14", "C03"], entry="h_close", unwind=258, timeout=300, min_tagged=8,
         title="qmail.c qmail_close(): \"\" iff qmail-queue exited 0 and nothing failed; D/Z classification of every exit status",
         functions=["qmail.c:qmail_close", "qmail.c:qmail_errstr", "qmail.c:qmail_put"],
         ce=dict(mode="plain", unwind=8), native=dict(), e2e="c07_qmail_close.sh",
         replaced=["substdio_put/flush/get, close, wait_pid (environment: any wait status 0..65535, any error text)"],
         canaries=[
             dict(name="exit0-ignores-flagerr", file="qmail.c", literal=True, pattern='case 0: if (!qq->flagerr) return "";', repl='case 0: return "";', expect=r"success is reported only"),
             dict(name="crash-not-checked", file="qmail.c", literal=True, pattern='  if (wait_crashed(wstat))\n    return "Zqq crashed (#4.3.0)";\n', repl='', expect=r"C07"),
             dict(name="errstr-off-by-one", file="qmail.c", literal=True, pattern="len < 255", repl="len < 256", expect=r"."),
         ]),
    dict(C, name="qmail_from", entry="h_from", unwind=6, timeout=120, min_tagged=4,
         title="qmail.c qmail_from(): message pipe flushed and closed, envelope goes to the envelope pipe, failures sticky",
         functions=["qmail.c:qmail_from", "qmail.c:qmail_put"],
         canaries=[dict(name="flush-failure-ignored", file="qmail.c", literal=True, pattern="  if (substdio_flush(&qq->ss) == -1) qq->flagerr = 1;\n  close(qq->fdm);", repl="  substdio_flush(&qq->ss);\n  close(qq->fdm);", expect=r"C07")]),
    dict(C, name="qmail_put", entry="h_put", timeout=120, min_tagged=3,
         title="qmail.c qmail_put()/qmail_fail(): nothing is written after a failure", functions=["qmail.c:qmail_put", "qmail.c:qmail_fail"],
         covers=False,
         canaries=[dict(name="put-ignores-flagerr", file="qmail.c", literal=True, pattern="if (!qq->flagerr) if (substdio_put(&qq->ss,s,len) == -1) qq->flagerr = 1;", repl="if (substdio_put(&qq->ss,s,len) == -1) qq->flagerr = 1;", expect=r"C07: nothing is written")]),
]
