PROOF = dict(
    name="local_mailforward", properties=["C13"], units=["harness.c", "stubs2.c", "repo:substdio.c"], mode="dfcc", timeout=300, min_tagged=8, unwind=20, cbmc_flags=["--no-pointer-primitive-check"],
    remove_bodies={"harness.c": ["temp_rewind", "temp_fork"]},
    loops=[dict(function="mailforward", head="while (match);", invariants="g_opened && g_dt_put && !g_eof && !g_readerr && !g_failed && !g_from_set && !g_closed && !g_pending_put && ss.fd == 0 && g_nto == 0 && recips == g_recips",
                assigns="match, messline.len, g_eof, g_readerr, g_failed, g_pending_put", symbols=["match", "ss", "recips"]),
           dict(function="mailforward", head="while (*recips)", invariants="g_from_set && !g_closed && g_nto <= g_n && recips == g_recips + g_nto && g_recips[g_n] == 0", assigns="recips, g_nto", symbols=["recips"])],
    title="qmail-local.c mailforward(): Delivered-To line first, every message line once and in order, NEWSENDER, every collected address once and in order, success only if qmail-queue accepted; D -> 100, else 111 - any message, any number of addresses",
    functions=["qmail-local.c:mailforward"],
    replaced=["qmail_open/put/fail/from/to/close (recording stubs; qmail_close never reports success after qmail_fail: proofs qmail_close/qmail_put)", "getln (any line / EOF / error; proof lib_getln)"],
    canaries=[dict(name="read-error-ignored", file="qmail-local.c", literal=True, pattern="   if (getln(&ss,&messline,&match,'\\n') != 0) { qmail_fail(&qqt); break; }", repl="   if (getln(&ss,&messline,&match,'\\n') != 0) { break; }", expect=r"C13: a read error while copying"),
              dict(name="first-address-skipped", file="qmail-local.c", literal=True, pattern=" while (*recips) qmail_to(&qqt,*recips++);", repl=" while (*recips) qmail_to(&qqt,*++recips);", expect=r"."),
              dict(name="refusal-counts-as-done", file="qmail-local.c", literal=True, pattern=" if (!*qqx) return;\n strerr_die3x(*qqx == 'D' ? 100 : 111", repl=" if (*qqx != 'D') return;\n strerr_die3x(*qqx == 'D' ? 100 : 111", expect=r".")],
)
