#include "verif.h"
void temp_rewind(void) { V_ASSUME(0); } void temp_fork(void) { V_ASSUME(0); }
