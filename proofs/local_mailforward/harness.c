/* C13: qmail-local.c mailforward() - the forwarding step: one new message = Delivered-To line + the whole original message, sender NEWSENDER,
 * every collected address once and in order; success only if qmail-queue accepted it.  Real file unmodified.  The message is an oracle
 * (lines of any length, EOF or read error at any point), the address list has any length. */
#include "verif.h"
#include <stdlib.h>
#include "qmail-local.c"
char **g_recips; unsigned g_n, g_nto; int g_rewound, g_opened, g_dt_put, g_eof, g_readerr, g_failed, g_from_set, g_closed, g_close_kind, g_died, g_pending_put, g_put_after_eof; static char lb[4], db[4], ub[4];
void strerr_die(int e, const char *a, const char *b, const char *c, const char *d, const char *e5, const char *f, struct strerr *se)
{
  V_ASSERT(g_closed && g_close_kind != 0 && e == (g_close_kind == 1 ? 100 : 111), "C13: a forward that qmail-queue refused permanently bounces (100), any other failure defers (111)");
  g_died = e; V_ASSUME(0);
}
off_t lseek(int fd, off_t o, int w) { V_ASSERT(fd == 0 && o == 0 && !g_rewound && !g_opened, "C13: the message is rewound before it is copied"); g_rewound = 1; return ND_BOOL() ? -1 : 0; }
int qmail_open(struct qmail *q) { V_ASSERT(g_rewound && !g_opened, "C13: supporting"); if (ND_BOOL()) return -1; g_opened = 1; return 0; }
unsigned long qmail_qp(struct qmail *q) { return 9; }
void qmail_put(struct qmail *q, char *s, unsigned int n)
{
  V_ASSERT(g_opened && !g_from_set && !g_closed, "C13: the message text is complete before the envelope starts");
  if (!g_dt_put) { V_ASSERT(s == dtline.s && n == dtline.len, "C13: a forwarded copy starts with this recipient's Delivered-To line (so that a loop is detected on its return)"); g_dt_put = 1; return; }
  V_ASSERT(s == messline.s && n == messline.len && g_pending_put, "C13: every line of the original message is copied once, in order, unchanged");
  g_pending_put = 0;
}
void qmail_fail(struct qmail *q) { g_failed = 1; }
int getln(substdio *s, stralloc *sa, int *match, int sep)
{
  V_ASSERT(g_dt_put && sa == &messline && sep == '\n' && s->fd == 0 && !g_eof && !g_readerr && !g_pending_put, "C13: supporting: lines are read from the rewound message until its end; each is copied before the next is read");
  if (ND_BOOL()) { g_readerr = 1; return -1; }
  messline.len = ND_UINT(); *match = ND_BOOL(); if (!*match) g_eof = 1; g_pending_put = 1; return 0;
}
void qmail_from(struct qmail *q, char *s) { V_ASSERT(!g_from_set && s == ueo.s && !g_pending_put && (g_eof || g_readerr), "C13: the forwarded copy carries the NEWSENDER envelope sender, after the whole message was copied"); V_ASSERT(!g_readerr || g_failed, "C13: a read error while copying fails the submission"); g_from_set = 1; }
void qmail_to(struct qmail *q, char *s) { V_ASSERT(g_from_set && !g_closed && g_nto < g_n && s == g_recips[g_nto], "C13: every collected forward address is submitted once, in the order of the .qmail lines"); ++g_nto; }
char *qmail_close(struct qmail *q)
{
  int k = ND_INT();
  V_ASSERT(g_from_set && !g_closed && g_recips[g_nto] == 0, "C13: the submission is closed only after every address up to the end of the list was submitted");
  g_closed = 1; if (g_failed || k < 0 || k > 1) k = 2;      /* never success after qmail_fail (proofs qmail_close/qmail_put) */
  g_close_kind = k; return k == 0 ? "" : k == 1 ? "Dx" : "Zx";
}
void harness(void)
{
  g_n = ND_UINT(); V_ASSUME(g_n >= 1 && g_n <= 0x0fffffff); g_recips = malloc(((size_t)g_n + 1) * sizeof(char *)); V_ASSUME(g_recips != 0); g_recips[g_n] = 0;
  g_nto = 0; g_rewound = g_opened = g_dt_put = g_eof = g_readerr = g_failed = g_from_set = g_closed = g_pending_put = 0; g_close_kind = -1; g_died = -1;
  dtline.s = db; dtline.len = ND_UINT(); messline.s = lb; messline.len = 0; ueo.s = ub; ub[0] = 0;
  mailforward(g_recips);
  V_ASSERT(g_closed && g_close_kind == 0, "C13: mailforward returns (the delivery counts as done) only if qmail-queue accepted the forwarded copy");
  V_COVER(g_nto >= 3 && g_eof);
}
