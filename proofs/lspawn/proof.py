PROOFS = [
  dict(name="lspawn_child", properties=["C11"], entry="h_spawn", defines=["P_SPAWN"], mode="plain", units=["harness.c", "stubs2.c", "repo:error_temp.c", "repo:prot.c"],
       remove_bodies={"harness.c": ["nughde_get"]}, unwind=30, timeout=300, min_tagged=8,
       title="qmail-lspawn.c spawn() child: execv only after setgroups, setgid, setuid succeeded in that order with the assignment's gid/uid, never as root; argument vector",
       functions=["qmail-lspawn.c:spawn", "prot.c:prot_gid"],
       replaced=["nughde_get (proof lspawn_nughde): any record of six fields of 0..3 bytes each, possibly truncated", "scan_ulong (contract: any value)", "byte_chr (contract: first occurrence)", "fork (returns 0: child branch), setgroups/setgid/setuid/getuid/execv/fd_move/chdir (environment)"],
       canaries=[
           dict(name="root-test-on-parsed-number", file="qmail-lspawn.c", literal=True, pattern="   if (!getuid()) _exit(QLX_ROOT);\n", repl="   if (!uid) _exit(QLX_ROOT);\n", expect=r"."),
           dict(name="uid-before-gid", file="qmail-lspawn.c", literal=True, pattern="   if (prot_gid(gid) == -1) _exit(QLX_USAGE);\n   if (prot_uid(uid) == -1) _exit(QLX_USAGE);\n   if (!getuid())", repl="   if (prot_uid(uid) == -1) _exit(QLX_USAGE);\n   if (prot_gid(gid) == -1) _exit(QLX_USAGE);\n   if (!getuid())", expect=r"C11"),
           dict(name="failed-gid-switch-ignored", file="qmail-lspawn.c", literal=True, pattern="   if (prot_gid(gid) == -1) _exit(QLX_USAGE);\n   if (prot_uid(uid)", repl="   prot_gid(gid);\n   if (prot_uid(uid)", expect=r"C11"),
           dict(name="gid-from-wrong-field", file="qmail-lspawn.c", literal=True, pattern="   scan_ulong(x,&u);\n   gid = u;", repl="   gid = u;", expect=r"C11"),
       ]),
  dict(name="lspawn_report", properties=["C11"], entry="h_report", defines=["P_REPORT"], mode="plain", units=["harness.c"], unwind=10, cbmc_unwindset=["strlen.0:56"], timeout=120, min_tagged=4,
       title="qmail-lspawn.c report(): K only for exit 0; every lookup/database/temporary code defers",
       functions=["qmail-lspawn.c:report"],
       canaries=[dict(name="cdb-error-bounces", file="qmail-lspawn.c", literal=True, pattern='"ZTrouble reading users/cdb in qmail-lspawn.\\n"', repl='"DTrouble reading users/cdb in qmail-lspawn.\\n"', expect=r"C11: a database or lookup error")]),
  dict(name="lspawn_nughde", properties=["C11"], entry="h_nughde", defines=["P_NUGHDE"], mode="dfcc", units=["harness.c"], timeout=300, min_tagged=10,
       loops=[dict(function="nughde_get", head="while (i);",
                   invariants="1 <= i && i <= lower.len && lower.len == g_llen && lower.s == lbuf && g_lowered && !g_hit && !g_cdb_err && g_opened && fd == 6"
                              " && (flagwild == 0 || flagwild == 1) && (flagwild == 0) == (i == g_llen) && g_first_probe_done == flagwild"
                              " && (flagwild ==> (g_last_i > (int)i && g_last_i <= (int)g_llen)) && wildchars.s == wbuf && g_tail_off == -1 && g_exit == -1"
                              " && ((flagwild && (int)i < g_K && g_K < (int)g_llen && (g_K == 1 || g_K_wild)) ==> g_K_probed)"
                              ,
                   assigns="i, flagwild, r, dlen, g_last_i, g_hit, g_hit_i, g_cdb_err, g_K_probed, g_first_probe_done, g_exit, nughde, g_tail_off, __CPROVER_errno",
                   symbols=["i", "flagwild", "r", "dlen", "fd"])],
       title="qmail-lspawn.c nughde_get() table part: exact key first, then successively shorter wildcard prefixes, none skipped, first hit wins, tail appended, errors defer",
       functions=["qmail-lspawn.c:nughde_get"],
       replaced=["cdb_seek/cdb_bread (oracles: what the table contains is configuration; proof cdb_* for the reader)", "byte_chr (contract), stralloc_* (contracts), case_lowerb"],
       assumptions=["C11: local parts shorter than 1023 bytes", "C11: the password-file path (qmail-getpw) is outside this proof"],
       canaries=[
           dict(name="wildcard-terminator-test-dropped", file="qmail-lspawn.c", literal=True, pattern="     if (!flagwild || (i == 1) || (byte_chr(wildchars.s,wildchars.len,lower.s[i - 1]) < wildchars.len))", repl="     if (1)", expect=r"C11: a shorter prefix is looked up only"),
           dict(name="cdb-error-falls-through", file="qmail-lspawn.c", literal=True, pattern="       if (r == -1) _exit(QLX_CDB);\n", repl="", expect=r"C11"),
           dict(name="tail-off-by-one", file="qmail-lspawn.c", literal=True, pattern="stralloc_cats(&nughde,local + i - 1)", repl="stralloc_cats(&nughde,local + i)", expect=r"C11: for a wildcard entry"),
       ]),
]
