/* C11: qmail-lspawn.c - the child branch of spawn(), nughde_get() and report().  Real file compiled unmodified. */
#include "verif.h"
#include <errno.h>
#include "qmail-lspawn.c"

/* ======================= spawn(): child branch ======================= */
#ifdef P_SPAWN
#define NB 28
static char nbuf[NB];                  /* the assignment record produced by nughde_get: user NUL uid NUL gid NUL home NUL dash NUL ext NUL */
static char rbuf[16], sbuf[4];
int g_groups_ok, g_gid_ok, g_uid_ok, g_order, g_rootcheck_after;
gid_t g_gid_set; uid_t g_cur_uid;
char *g_scanp[2]; unsigned long g_scanv[2]; int g_nscan;
int g_exit = -1, g_execd;

/* contract of byte_chr (proof byte_chr): index of the first occurrence of c in s[0..n), n if there is none */
unsigned int byte_chr(char *s, unsigned int n, int c)
{
  unsigned r = ND_UINT(), o = (unsigned)(s - nbuf);
  V_ASSERT(__CPROVER_same_object(s, nbuf) && o <= NB && n <= NB - o, "C11: field splitting stays inside the assignment record");
  V_ASSUME(r <= n && (r == n || nbuf[o + r] == (char)c));
  V_ASSUME(__CPROVER_forall { unsigned k; (k < NB) ==> ((k >= o && k < o + r) ==> nbuf[k] != (char)c) });
  return r;
}
void nughde_get(char *l);
pid_t fork(void) { return 0; }   /* this proof is about the child; the parent just returns the pid */
int chdir(const char *p) { return ND_BOOL() ? -1 : 0; }
int fd_move(int a, int b) { return ND_BOOL() ? -1 : 0; }
int fd_copy(int a, int b) { return ND_BOOL() ? -1 : 0; }
unsigned int scan_ulong(char *s, unsigned long *u)
{ unsigned long v = ND_ULONG(); V_ASSERT(g_nscan < 2, "C11: supporting: two numeric fields"); g_scanp[g_nscan] = s; g_scanv[g_nscan] = v; ++g_nscan; *u = v; return ND_UINT() % 21; }
int setgroups(size_t n, const gid_t *l) { V_ASSERT(g_order == 0, "C11: supplementary groups are dropped first"); if (ND_BOOL()) return -1; g_order = 1; g_groups_ok = (n == 1); g_gid_set = l[0]; return 0; }
int setgid(gid_t g) { V_ASSERT(g_order == 1 && g_groups_ok && g == g_gid_set, "C11: then the group id is switched, to the same gid"); if (ND_BOOL()) return -1; g_order = 2; g_gid_ok = 1; return 0; }
int setuid(uid_t u) { V_ASSERT(g_order == 2, "C11: the user id is switched last (after the groups, which needs root)"); if (ND_BOOL()) return -1; g_order = 3; g_uid_ok = 1; g_cur_uid = u; return 0; }
uid_t getuid(void) { if (g_order == 3) g_rootcheck_after = 1; return g_cur_uid; }
static unsigned g_fl[6], g_total;        /* field lengths of the record (each 0..3 bytes) */
static char *field(int k) { unsigned o = 0; int j; for (j = 0; j < k && j < 6; ++j) o += g_fl[j] + 1; return nbuf + o; }
int execv(const char *path, char *const argv[])
{
  V_ASSERT(g_order == 3 && g_groups_ok && g_gid_ok && g_uid_ok, "C11: the delivery agent starts only after supplementary groups, gid and uid have all been switched");
  V_ASSERT(g_nscan == 2 && g_scanp[0] == field(1) && g_scanp[1] == field(2), "C11: uid and gid are the second and third fields of the assignment");
  V_ASSERT(g_cur_uid == (uid_t)g_scanv[0] && g_gid_set == (gid_t)g_scanv[1], "C11: the process runs with exactly the uid and gid of the assignment");
  V_ASSERT(g_cur_uid != 0 && g_rootcheck_after, "C11: the delivery agent is never started as root (checked on the real uid after the switch)");
  V_ASSERT(argv[2] == field(0) && argv[3] == field(3) && argv[5] == field(4) && argv[6] == field(5), "C11: user, home, dash and extension are passed from the assignment, in that order");
  V_ASSERT(argv[4] == rbuf && argv[7] == rbuf + 6 && argv[8] == sbuf && argv[9] == aliasempty && argv[10] == 0, "C11: local part, host, sender and default delivery are passed unchanged");
  V_ASSERT(nughde.len >= g_total, "C11: supporting: a record with fewer than six complete fields is refused (QLX_USAGE)");
  g_execd = 1;
  V_COVER(1);
  V_HAVOC_ERRNO();
  return -1;   /* execv only returns on failure; on success the proof of this process ends here as well */
}
void _exit(int e) { V_ASSERT(e != 0 || rbuf[0] == 0, "C11: supporting: exit 0 without running anything only for the empty local part"); g_exit = e; V_COVER(e == 113); V_ASSUME(0); }
void h_spawn(void)
{
  int k;
  unsigned o = 0;
  for (k = 0; k < NB; ++k) { nbuf[k] = ND_CHAR(); V_ASSUME(nbuf[k] != 0); }
  for (k = 0; k < 6; ++k) { g_fl[k] = ND_UINT(); V_ASSUME(g_fl[k] <= 3); o += g_fl[k]; nbuf[o] = 0; ++o; }
  g_total = o;
  for (k = 0; k < 16; ++k) rbuf[k] = ND_CHAR();
  rbuf[15] = 0;
  nughde.s = nbuf; nughde.len = ND_UINT(); V_ASSUME(nughde.len <= NB); nughde.a = NB;
  g_groups_ok = g_gid_ok = g_uid_ok = g_order = g_rootcheck_after = g_nscan = g_execd = 0; g_cur_uid = 0;
  spawn(3, 4, sbuf, rbuf, 5);
  V_ASSERT(0, "C11: the child never returns from spawn()");
}
#endif

/* ======================= report() ======================= */
#ifdef P_REPORT
char g_first; int g_nput; substdio g_ss; static char obuf[8];
int substdio_put(substdio *s, const char *b, size_t len) { if (!g_nput && len) g_first = b[0]; if (len) ++g_nput; return 0; }
void h_report(void)
{
  int wstat = ND_INT(), len = ND_INT(), code, k;
  V_ASSUME(0 <= wstat && wstat <= 65535 && 0 <= len && len <= 8);
  for (k = 0; k < 8; ++k) obuf[k] = ND_CHAR();
  g_nput = 0; g_first = 0;
  report(&g_ss, wstat, obuf, len);
  code = wstat >> 8;
  V_ASSERT(g_first == 'K' || g_first == 'Z' || g_first == 'D', "C11: every finished delivery yields exactly one verdict");
  V_ASSERT((g_first == 'K') == (!(wstat & 127) && code == 0), "C11: success is reported only if qmail-local exited 0");
  if (wstat & 127) V_ASSERT(g_first == 'Z', "C11: a crashed qmail-local defers");
  else if (code == 117 || code == 118 || code == 119 || code == 116 || code == 113 || code == 112 || code == 115 || code == 120 || code == 121 || code == 111 || code == 71 || code == 74 || code == 75)
    V_ASSERT(g_first == 'Z', "C11: a database or lookup error (and every other temporary condition) defers the delivery instead of bouncing it");
  V_COVER(g_first == 'D');
}
#endif

/* ======================= nughde_get(): lookup order ======================= */
#ifdef P_NUGHDE
#define LB 1024
static char lbuf[LB]; static char loc[LB]; static char wbuf[8], nb[8];
unsigned g_llen;                 /* length of "!" lower(local) NUL */
int g_K, g_K_probed, g_K_wild;   /* ghost: an arbitrary prefix length K, whether it was probed, whether byte K-1 is a wildcard terminator */
int g_last_i, g_hit, g_hit_i, g_cdb_err, g_lowered, g_wild_asked_i, g_tail_off = -1, g_exit = -1, g_opened, g_first_probe_done;
int stralloc_copys(stralloc *sa, char *s) { if (ND_BOOL()) return 0; if (sa == &lower) { sa->s = lbuf; sa->a = LB; sa->len = 1; } else { sa->s = nb; sa->a = 8; sa->len = 0; } return 1; }
int stralloc_cats(stralloc *sa, char *s)
{
  if (ND_BOOL()) return 0;
  if (sa == &lower) { V_ASSERT(s == loc, "C11: the key is built from the local part"); sa->len = g_llen - 1; }
  else { V_ASSERT(sa == &nughde && g_hit && g_hit_i < (int)g_llen && s == loc + g_hit_i - 1, "C11: for a wildcard entry the unmatched rest of the original-case local part is appended"); g_tail_off = g_hit_i - 1; }
  return 1;
}
int stralloc_append(stralloc *sa, char *c) { if (ND_BOOL()) return 0; if (sa == &lower) sa->len = g_llen; return 1; }
int stralloc_ready(stralloc *sa, unsigned n) { if (ND_BOOL()) return 0; if (sa == &wildchars) { sa->s = wbuf; sa->a = 8; } else { sa->s = nb; sa->a = 8; } return 1; }
void case_lowerb(char *s, unsigned n) { V_ASSERT(s == lbuf && n == g_llen, "C11: the whole key is lower-cased (lookups ignore case)"); g_lowered = 1; }
int open_read(char *fn) { if (ND_BOOL()) { V_HAVOC_ERRNO(); return -1; } g_opened = 1; return 6; }
int close(int fd) { return 0; }
_Bool __CPROVER_uninterpreted_iswild(char);   /* "this byte is in the table's wildcard-terminator set": a fixed but arbitrary set */
int cdb_bread(int fd, char *b, int len)
{
  if (b == wbuf) g_K_wild = (len > 0 && 1 <= g_K && g_K < LB) ? __CPROVER_uninterpreted_iswild(lbuf[g_K - 1]) : 0;   /* the wildcard set is known from here on */
  if (ND_BOOL()) { g_cdb_err = 1; return -1; } return 0;
}
unsigned int byte_chr(char *s, unsigned n, int c)
{
  /* contract of byte_chr: index of the first occurrence, n if none */
  V_ASSERT(s == wildchars.s && n == wildchars.len, "C11: supporting: wildcard set lookup");
  return (n > 0 && __CPROVER_uninterpreted_iswild((char)c)) ? 0 : n;
}
int cdb_seek(int fd, char *key, unsigned len, uint32 *dlen)
{
  int r = ND_INT();
  if (len == 0) { if (r != 1) { g_cdb_err = 1; return r == -1 ? -1 : 0; } *dlen = ND_UINT() % 8; return 1; }   /* the wildcard-set record */
  V_ASSERT(key == lbuf && g_lowered, "C11: keys are prefixes of ! + lower-cased local part");
  V_ASSERT(!g_hit && !g_cdb_err, "C11: nothing is looked up after a hit or an error");
  if (!g_first_probe_done) { V_ASSERT(len == g_llen, "C11: the exact entry (whole local part) is looked up first"); g_first_probe_done = 1; }
  else {
    V_ASSERT((int)len < g_last_i && len >= 1, "C11: then successively shorter prefixes (longest wildcard first)");
    V_ASSERT(len == 1 || (wildchars.len > 0 && __CPROVER_uninterpreted_iswild(lbuf[len - 1])), "C11: a shorter prefix is looked up only if it ends in a wildcard terminator (or is the catch-all)");
  }
  g_last_i = (int)len;
  if ((int)len == g_K) g_K_probed = 1;
  if (r == 1) { g_hit = 1; g_hit_i = (int)len; *dlen = ND_UINT() % 8; return 1; }
  if (r == -1) { g_cdb_err = 1; V_HAVOC_ERRNO(); return -1; }
  return 0;
}
int pipe(int p[2]) { V_ASSERT(!g_hit && !g_cdb_err, "C11: the password-file lookup is used only if the assignment table has no entry - never after a database error"); V_ASSUME(0); return -1; }
void _exit(int e) { g_exit = e; V_ASSERT(!g_cdb_err || e == 117, "C11: a database error defers the delivery (QLX_CDB)"); V_ASSERT(e == 117 || e == 119, "C11: supporting: exits in the cdb part are CDB or NOMEM"); V_COVER(e == 117); V_ASSUME(0); }
void h_nughde(void)
{
  g_llen = ND_UINT(); V_ASSUME(2 <= g_llen && g_llen <= LB);
  g_K = ND_INT(); g_K_probed = 0; g_last_i = 0x7fffffff; g_hit = g_hit_i = g_cdb_err = g_lowered = g_wild_asked_i = g_opened = g_first_probe_done = 0; g_tail_off = -1;
  g_exit = -1;
  __CPROVER_havoc_object(lbuf);
  g_K_wild = 0;
  lower.s = 0; lower.len = 0; nughde.s = 0; nughde.len = 0; wildchars.s = 0; wildchars.len = 0;
  nughde_get(loc);
  V_ASSERT(g_opened && g_hit && !g_cdb_err, "C11: nughde_get returns from the table part only with the entry that was found");
  V_ASSERT((g_hit_i < (int)g_llen) == (g_tail_off >= 0), "C11: the unmatched tail is appended exactly for wildcard entries");
  if (1 <= g_K && g_K < (int)g_llen && g_K > g_hit_i && (g_K == 1 || g_K_wild)) V_ASSERT(g_K_probed, "C11: no longer qualifying wildcard prefix was skipped: the longest match wins");
  V_COVER(g_hit_i < (int)g_llen && g_hit_i > 1); V_COVER(g_hit_i == (int)g_llen);
}
#endif
