/* nughde_get is proved separately (lspawn_nughde); here it leaves whatever record the harness prepared */
void nughde_get(char *local) { }
