B = dict(properties=["C09"], units=["harness.c"], mode="dfcc", timeout=120, unwind=10)
PROOFS = [
  dict(B, name="remote_outsmtptext", defines=["P_OUTSMTPTEXT"], min_tagged=3,
       loops=[dict(function="outsmtptext", head="for (i = 0;i <", invariants="smtptext.s == g_t && smtptext.len == g_n && 0 <= i && (unsigned)i <= g_n && g_n <= 0x3fffffff && g_hdr && !g_put && (!(g_K < (unsigned)i) || g_t[g_K] != 0)", assigns="i, __CPROVER_object_whole(g_t)", symbols=["i"])],
       title="qmail-remote.c outsmtptext(): every NUL of the server's reply text is replaced before the text enters the NUL-separated report stream - text of any length",
       functions=["qmail-remote.c:outsmtptext"],
       canaries=[dict(name="nul-kept", file="qmail-remote.c", literal=True, pattern="      if (!smtptext.s[i]) smtptext.s[i] = '?';", repl="      if (smtptext.s[i] == '\\n') smtptext.s[i] = '?';", expect=r".")]),
  dict(B, name="remote_outsafe", defines=["P_OUTSAFE"], min_tagged=2,
       loops=[dict(function="outsafe", head="for (i = 0;i <", invariants="sa->s == g_t && sa->len == g_n && 0 <= i && (unsigned)i <= g_n && g_n <= 0x3fffffff && g_nsafe == i", assigns="i, ch, g_nsafe", symbols=["i", "ch", "sa"])],
       title="qmail-remote.c outsafe(): host names enter the report stream as printable ASCII only - any length",
       functions=["qmail-remote.c:outsafe"],
       canaries=[dict(name="control-bytes-kept", file="qmail-remote.c", literal=True, pattern="if (ch < 33) ch = '?';", repl="if (ch < 0) ch = '?';", expect=r"C09: host names")]),
]
