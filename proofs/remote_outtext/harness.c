/* C09: qmail-remote.c outsmtptext() / outsafe() - the server's reply text and the host name are copied into the NUL-separated report stream
 * that qmail-rspawn parses: no NUL (= record boundary) may come from the remote side.  Real file unmodified; text of any length. */
#include "verif.h"
#include <stdlib.h>
#include "qmail-remote.c"
char *g_t; unsigned g_n, g_K; int g_hdr, g_put, g_nsafe;
int substdio_puts(substdio *s, const char *b) { V_ASSERT(s == subfdoutsmall, "C09: supporting"); g_hdr = 1; return ND_BOOL() ? -1 : 0; }
int substdio_put(substdio *s, const char *b, size_t n)
{
  V_ASSERT(s == subfdoutsmall, "C09: supporting: reports go to the report stream");
#ifdef P_OUTSMTPTEXT
  if (b == g_t) {
    V_ASSERT(n == g_n && g_hdr && !g_put, "C09: the whole remembered reply text is reported once, after its introduction");
    V_ASSERT(!(g_K < g_n) || g_t[g_K] != 0, "C09: no NUL from the server's reply reaches the report stream (a NUL ends a report record: reply text cannot forge a verdict record)");
    g_put = 1; return ND_BOOL() ? -1 : 0;
  }
  g_hdr = 1; return ND_BOOL() ? -1 : 0;
#else
  V_ASSERT(n == 1 && b[0] >= 33 && b[0] <= 126, "C09: host names are reported with printable ASCII only (no NUL, no line break, no 8-bit byte reaches the report stream)");
  V_ASSERT(g_nsafe < (int)g_n && (b[0] == g_t[g_nsafe] || b[0] == '?'), "C09: supporting: one byte per byte of the name, itself or ?");
  ++g_nsafe; return ND_BOOL() ? -1 : 0;
#endif
}
void _exit(int e) { V_ASSERT(e == 0, "C09: supporting: qmail-remote always exits 0; the verdict is in the report"); V_ASSUME(0); }
void harness(void)
{
  g_n = ND_UINT(); g_K = ND_UINT(); V_ASSUME(g_n >= 1 && g_n <= 0x3fffffff); g_t = malloc(g_n); V_ASSUME(g_t != 0); g_hdr = g_put = g_nsafe = 0;
#ifdef P_OUTSMTPTEXT
  smtptext.s = g_t; smtptext.len = g_n; smtptext.a = g_n;
  outsmtptext();
  V_ASSERT(g_put && smtptext.len == 0, "C09: supporting: the text is reported and forgotten");
#else
  { static stralloc sa; sa.s = g_t; sa.len = g_n; sa.a = g_n; outsafe(&sa); V_ASSERT(g_nsafe == (int)g_n, "C09: supporting: the whole name is reported"); }
#endif
  V_COVER(g_n > 10);
}
