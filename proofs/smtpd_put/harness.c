/* C07: qmail-smtpd.c put() - the size limit: the submission is failed exactly when byte number databytes+1 is stored.
 * Inductive step from an arbitrary counter value; with setup()'s bytestooverflow = databytes + 1 this gives
 * "a body one byte over the limit is failed, a body of exactly the limit is not" for every limit. */
#include "verif.h"
#include "qmail-smtpd.c"
int g_failed, g_puts;
void qmail_put(struct qmail *q, char *s, size_t n) { V_ASSERT(q == &qqt && (unsigned)n == 1, "C07: supporting"); ++g_puts; }
void qmail_fail(struct qmail *q) { V_ASSERT(g_puts == 0, "C07: the byte that exceeds the limit is failed before it is handed on"); g_failed = 1; }
void h_put(void)
{
  unsigned b0 = ND_UINT(); char c = ND_CHAR();
  bytestooverflow = b0; g_failed = g_puts = 0;
  put(&c);
  V_ASSERT(g_puts == 1, "C07: supporting: every decoded byte is handed to the queue writer");
  V_ASSERT(g_failed == (b0 == 1), "C07: the submission is failed exactly when the byte count reaches databytes + 1 (one byte over the limit), not before");
  V_ASSERT(bytestooverflow == (b0 ? b0 - 1 : 0), "C07: the remaining-bytes counter decreases by one per stored byte and stays 0 once exhausted (0 also means: no limit)");
  V_COVER(g_failed);
}
void h_setup_limit(void)
{
  /* the two lines of setup()/smtp_data that establish the counter: databytes + 1 never wraps to 0 = "no limit" */
  databytes = ND_UINT();
  if (!(databytes + 1)) --databytes;
  if (databytes) bytestooverflow = databytes + 1; else bytestooverflow = 0;
  V_ASSERT(!databytes || bytestooverflow == databytes + 1u, "C07: supporting");
  V_ASSERT(!databytes || bytestooverflow != 0, "C07: a configured limit can never turn into 'no limit' by wrap-around");
}
