/* C07: qmail-smtpd.c put() - the size limit: the submission is failed exactly when byte number databytes+1 is stored.
 * Inductive step from an arbitrary counter value; with setup()'s bytestooverflow = databytes + 1 this gives
 * "a body one byte over the limit is failed, a body of exactly the limit is not" for every limit. */
#include "verif.h"
#include "qmail-smtpd.c"
int g_failed, g_puts;
void qmail_put(struct qmail *q, char *s, size_t n) { V_ASSERT(q == &qqt && (unsigned)n == 1, "C07: supporting"); ++g_puts; }
void qmail_fail(struct qmail *q) { V_ASSERT(g_puts == 0, "C07: the byte that exceeds the limit is failed before it is handed on"); g_failed = 1; }
void h_put(void)
{
  unsigned b0 = ND_UINT(); char c = ND_CHAR();
  bytestooverflow = b0; g_failed = g_puts = 0;
  put(&c);
  V_ASSERT(g_puts == 1, "C07: supporting: every decoded byte is handed to the queue writer");
  V_ASSERT(g_failed == (b0 == 1), "C07: the submission is failed exactly when the byte count reaches databytes + 1 (one byte over the limit), not before");
  V_ASSERT(bytestooverflow == (b0 ? b0 - 1 : 0), "C07: the remaining-bytes counter decreases by one per stored byte and stays 0 once exhausted (0 also means: no limit)");
  V_COVER(g_failed);
}
void h_setup_limit(void)
{
  /* the two lines of setup()/smtp_data that establish the counter: databytes + 1 never wraps to 0 = "no limit" */
  databytes = ND_UINT();
  if (!(databytes + 1)) --databytes;
  if (databytes) bytestooverflow = databytes + 1; else bytestooverflow = 0;
  V_ASSERT(!databytes || bytestooverflow == databytes + 1u, "C07: supporting");
  V_ASSERT(!databytes || bytestooverflow != 0, "C07: a configured limit can never turn into 'no limit' by wrap-around");
}

/* ---- bmfcheck: the bad-sender list is consulted with the whole address and with @domain (C08) ---- */
#ifdef P_BMF
static char ab[16]; int g_np, g_hit[2]; char *g_pp[2]; int g_pl[2]; unsigned g_at;
char *constmap(struct constmap *cm, char *s, int len) { V_ASSERT(cm == &mapbmf && g_np < 2, "C08: supporting"); g_pp[g_np] = s; g_pl[g_np] = len; g_hit[g_np] = ND_BOOL(); return g_hit[g_np++] ? "x" : 0; }
unsigned int byte_rchr(char *s, unsigned int n, int c) { V_ASSERT(s == ab && n == addr.len && c == '@', "C08: supporting"); return g_at; }   /* contract: last @ or n */
void h_bmf(void)
{
  int r;
  addr.s = ab; addr.len = 1 + ND_UINT() % 15; addr.a = 16; bmfok = ND_BOOL(); g_np = 0; g_at = ND_UINT(); V_ASSUME(g_at <= addr.len);
  r = bmfcheck();
  if (!bmfok) { V_ASSERT(r == 0 && g_np == 0, "C08: without a badmailfrom file no sender is refused"); return; }
  V_ASSERT(g_np >= 1 && g_pp[0] == ab && g_pl[0] == (int)addr.len - 1, "C08: the bad-sender list is consulted with the whole envelope sender");
  if (g_hit[0]) V_ASSERT(r == 1 && g_np == 1, "C08: a listed sender address is refused");
  else if (g_at < addr.len) { V_ASSERT(g_np == 2 && g_pp[1] == ab + g_at && g_pl[1] == (int)(addr.len - g_at - 1), "C08: and with @domain of the sender"); V_ASSERT(r == g_hit[1], "C08: a sender is on the bad-sender list exactly if its address or its @domain is listed"); }
  else V_ASSERT(r == 0 && g_np == 1, "C08: supporting: no domain part");
  V_COVER(r == 1 && g_np == 2);
}
#endif
