PROOFS = [
  dict(name="smtpd_put", properties=["C07"], entry="h_put", units=["harness.c"], mode="plain", unwind=2, timeout=120, min_tagged=3,
       title="qmail-smtpd.c put(): the submission is failed exactly at byte databytes+1 (inductive step from an arbitrary counter)",
       functions=["qmail-smtpd.c:put"],
       canaries=[dict(name="limit-off-by-one", file="qmail-smtpd.c", literal=True, pattern="  if (bytestooverflow)\n    if (!--bytestooverflow)\n      qmail_fail(&qqt);", repl="  if (bytestooverflow > 1)\n    if (!--bytestooverflow)\n      qmail_fail(&qqt);", expect=r"C07"),
                 dict(name="fail-not-called", file="qmail-smtpd.c", literal=True, pattern="    if (!--bytestooverflow)\n      qmail_fail(&qqt);\n  qmail_put(&qqt,ch,1);", repl="    --bytestooverflow;\n  qmail_put(&qqt,ch,1);", expect=r"C07: the submission is failed exactly")]),
  dict(name="smtpd_bmfcheck", properties=["C08"], entry="h_bmf", defines=["P_BMF"], units=["harness.c"], mode="plain", unwind=2, timeout=120, min_tagged=4,
       title="qmail-smtpd.c bmfcheck(): bad sender iff the whole address or its @domain is listed", functions=["qmail-smtpd.c:bmfcheck"],
       canaries=[dict(name="domain-entry-not-consulted", file="qmail-smtpd.c", literal=True, pattern="    if (constmap(&mapbmf,addr.s + j,addr.len - j - 1)) return 1;", repl="    ;", expect=r"C08")]),
]
