/* C05: qmail-smtpd.c blast() against a reference CRLF/dot decoder written from the property over a 4-byte history
 * window (deliberately not over the code's state numbering).  The real qmail-smtpd.c is compiled unmodified. */
#include "verif.h"
#include "qmail-smtpd.c"

#define CR '\r'
#define LF '\n'

unsigned char h1, h2, h3, h4;   /* last four bytes received, h1 newest; initially the CR LF that ended the DATA command */
unsigned char g_exp[4];         /* bytes the reference says must be stored next, in order */
int g_explen;
int g_term;                     /* the reference has seen CR LF . CR LF */
int g_stray;                    /* the reference has seen a bare LF: the only permitted continuation is straynewline() */
int g_consumed;                 /* bytes received so far (domain restriction: < 2^31-1) */
int g_hops;
int g_failed;
unsigned long g_stored;         /* bytes handed to the queue writer */
#define B0 4000000000u          /* initial value of the size counter in this proof */

static void expect(unsigned char c) { g_exp[g_explen++] = c; }

static void reference(unsigned char c)
{
  int atls = h2 == CR && h1 == LF;
  int dotcr = h4 == CR && h3 == LF && h2 == '.' && h1 == CR;
  int heldcr = h1 == CR;
  if (c == LF) {
    if (h1 != CR) g_stray = 1;               /* R1: a LF is legal only directly after CR */
    else if (dotcr) g_term = 1;              /* R2: CR LF . CR LF ends the message */
    else expect(LF);                         /* R3: CR LF is stored as LF */
  } else {
    if (dotcr) { expect('.'); expect(CR); }  /* R5: ". CR x" at a line start: both kept (property silent) */
    else if (heldcr) expect(CR);             /* R6: a bare CR is data */
    if (c == CR) ;                           /* held until the next byte decides */
    else if (c == '.' && atls) ;             /* R4: one leading dot is removed (or it starts the terminator) */
    else expect(c);
  }
  h4 = h3; h3 = h2; h2 = h1; h1 = c;
}

ssize_t substdio_get(substdio *s, char *buf, size_t len)
{
  unsigned char c;
  V_ASSERT(s == &ssin && len == 1, "C05: supporting: blast reads the connection one byte at a time");
  V_ASSERT(!g_term, "C05: nothing is read after CR LF . CR LF (the following bytes are the next command)");
  V_ASSERT(!g_stray, "C05: after a bare LF the session is refused (nothing further is read)");
  V_ASSERT(g_explen == 0, "C05: every decoded byte is stored before the next byte is read");
  V_ASSUME(g_consumed < 2147483646);  /* domain restriction: DATA streams shorter than 2 GiB (hop counter is an int) */
  ++g_consumed;
  c = ND_UCHAR();
  V_INPUT_BYTE(c);
  *buf = (char)c;
  reference(c);
  return 1;   /* saferead exits on EOF, error and timeout: substdio_get on ssin never returns <= 0 */
}

void qmail_put(struct qmail *qq, char *s, size_t len)
{
  V_ASSERT(qq == &qqt && (unsigned)len == 1, "C05: supporting: message bytes are handed to the queue one at a time");
  V_ASSERT(!g_stray, "C05: after a bare LF nothing more is stored");
  g_stored += (unsigned)len;
  V_ASSERT(g_stored >= B0 || bytestooverflow == B0 - (unsigned)g_stored, "C07: every byte stored in the queue has passed the size counter (so a body one byte over databytes is failed, whatever its line structure)");
  V_ASSERT(g_explen > 0, "C05: only bytes of the decoded message are stored (nothing extra)");
  if (g_explen > 0) {
    V_ASSERT((unsigned char)*s == g_exp[0], "C05: the stored bytes are exactly the transmitted lines, CR LF -> LF, one leading dot removed, bare CR kept");
    g_exp[0] = g_exp[1]; g_exp[1] = g_exp[2]; g_exp[2] = g_exp[3];
    --g_explen;
  }
}

void qmail_fail(struct qmail *qq) { g_failed = 1; }

void harness(void)
{
  h4 = 0; h3 = 0; h2 = CR; h1 = LF;
  g_explen = 0; g_term = 0; g_stray = 0; g_consumed = 0; g_failed = 0; g_stored = 0; bytestooverflow = B0;
  blast(&g_hops);
  V_ASSERT(g_term, "C05: the message ends only at a line consisting of a single dot terminated by CR LF");
  V_ASSERT(g_explen == 0 && !g_stray, "C05: at the end of DATA every decoded byte has been stored");
  V_COVER(g_consumed > 5);
}
