W3 = "(h4 == 13 && h3 == 10 && h2 == 46 && h1 == 13)"
W2 = "(h3 == 13 && h2 == 10 && h1 == 46)"
W1 = "(h2 == 13 && h1 == 10)"
GH = "h1, h2, h3, h4, __CPROVER_object_whole(g_exp), g_explen, g_term, g_stray, g_consumed, g_failed, g_hops, bytestooverflow, g_stored"
PROOF = dict(
    properties=["C05", "C07"],
    title="qmail-smtpd.c blast(): decoded bytes = reference CRLF/dot decoder; ends exactly at CR LF . CR LF; bare LF refused",
    functions=["qmail-smtpd.c:blast", "qmail-smtpd.c:put"],
    units=["harness.c", "stubs2.c"],
    remove_bodies={"harness.c": ["straynewline"]},
    mode="dfcc",
    loops=[
        dict(function="blast", head="for (;;)",
             invariants="state == (%s ? 3 : %s ? 2 : %s ? 1 : h1 == 13 ? 4 : 0) && g_explen == 0 && !g_term && !g_stray"
                        " && 0 <= pos && pos <= 9 && 0 <= g_hops && g_hops <= g_consumed && hops == &g_hops"
                        " && g_stored <= 3ul * (unsigned long)g_consumed && (g_stored >= 4000000000ul || bytestooverflow == 4000000000u - (unsigned)g_stored)" % (W3, W2, W1),
             assigns="ch, state, flaginheader, pos, flagmaybex, flagmaybey, flagmaybez, " + GH,
             symbols={"ch": "blast::1::ch", "state": "blast::1::state", "flaginheader": "blast::1::flaginheader",
                      "pos": "blast::1::pos", "flagmaybex": "blast::1::flagmaybex", "flagmaybey": "blast::1::flagmaybey",
                      "flagmaybez": "blast::1::flagmaybez", "hops": "blast::hops"}),
    ],
    min_tagged=8,
    timeout=300,
    ce=dict(mode="plain", unwind=10),
    native=dict(stub_units_first=["stubs2.c"]),
    e2e="c05_blast.sh",
    replaced=["substdio_get on ssin (one arbitrary byte per call; never returns <= 0 because saferead exits)",
              "qmail_put / qmail_fail (recording stubs; real ones verified in proofs/qmail_lib)", "straynewline (does not return)"],
    assumptions=["C05: DATA streams shorter than 2 GiB (the hop counter is an int)",
                 "C05: '. CR x' at a line start (a line no conforming sender produces): the property is silent; the reference accepts what the code does (dot kept)"],
    canaries=[
        dict(name="two-bytes-bypass-the-size-counter", file="qmail-smtpd.c", literal=True, pattern='        put(".");\n        put("\\r");', repl='        qmail_put(&qqt,".\\r",2);', expect=r"."),
        dict(name="bare-lf-accepted-in-state-0", file="qmail-smtpd.c", literal=True,
             pattern="      case 0:\n        if (ch == '\\n') straynewline();", repl="      case 0:", expect=r"C05"),
        dict(name="dot-lf-ends-message", file="qmail-smtpd.c", literal=True,
             pattern="      case 2: /* \\r\\n + . */\n        if (ch == '\\n') straynewline();", repl="      case 2: /* \\r\\n + . */\n        if (ch == '\\n') return;", expect=r"C05"),
        dict(name="held-cr-dropped", file="qmail-smtpd.c", literal=True,
             pattern="if (ch != '\\r') { put(\"\\r\"); state = 0; }", repl="if (ch != '\\r') { state = 0; }", expect=r"C05"),
    ],
)
