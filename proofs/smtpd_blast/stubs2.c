#include "verif.h"
extern int g_stray, g_term;
void straynewline(void)
{
  V_ASSERT(g_stray, "C05: the 451 bare-LF refusal happens only for a LF that does not follow CR");
  V_COVER(1);
  V_ASSUME(0);   /* prints 451 and exits: checked in proofs/smtpd_misc */
}
