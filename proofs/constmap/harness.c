/* C10 / C08: constmap.c - "all matching ignores case" (bounded stand-in).  constmap.c is compiled unmodified. */
#include "verif.h"
#include <stdlib.h>
#include "constmap.c"

#ifndef KN
#define KN 6
#endif
static char lo(char c) { return (c >= 'A' && c <= 'Z') ? (char)(c + 32) : c; }

void h_hash_case(void)
{
  static char a[KN], b[KN]; int len = ND_INT(), k;
  V_ASSUME(0 <= len && len <= KN);
  for (k = 0; k < KN; ++k) { a[k] = ND_CHAR(); b[k] = ND_CHAR(); V_ASSUME(lo(a[k]) == lo(b[k])); }
  V_ASSERT(hash(a, len) == hash(b, len), "C10,C08: two keys that differ only in the case of ASCII letters hash alike (matching ignores case, for every letter A..Z)");
  V_COVER(len == KN && a[0] == 'Z' && b[0] == 'z');
}

