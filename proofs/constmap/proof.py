PROOFS = [
  dict(name="constmap_hash_case", properties=["C10", "C08"], entry="h_hash_case", units=["harness.c"], mode="plain", unwind=8, timeout=300, min_tagged=1,
       title="constmap.c hash(): case-insensitive for every key of <= 6 bytes", functions=["constmap.c:hash"],
       bounded="keys of at most 6 bytes, every byte value (the fold is per character; longer keys by the same recurrence)",
       canaries=[dict(name="fold-misses-Z", file="constmap.c", literal=True, pattern="if (ch <= 'Z' - 'A') ch += 'a' - 'A';", repl="if (ch < 'Z' - 'A') ch += 'a' - 'A';", expect=r"C10,C08")]),
]
