#include "verif.h"
#ifdef P_QMESEARCH
#include "stralloc.h"
extern int g_desc, g_pre, g_nprobes, g_last_pre, g_found, g_found_pre, g_exact_probed, g_K, g_K_probed; extern stralloc safeext; extern char *sext;
int qmeexists(int *fd, int *cutable)
{
  V_ASSERT(!g_found, "C13: the first existing candidate wins, nothing is tried after it");
  if (!g_exact_probed) { V_ASSERT(g_desc == 3, "C13: the exact name is tried first"); g_exact_probed = 1; g_pre = -1; }
  else {
    V_ASSERT(g_desc == 5, "C13: fallback names are .qmail + dash + prefix + default");
    V_ASSERT(g_pre >= 0 && g_pre <= (int)safeext.len && g_pre < g_last_pre, "C13: then successively shorter -default files");
    V_ASSERT(g_pre == 0 || safeext.s[g_pre - 1] == '-', "C13: -default candidates end at a dash of the sanitised extension (a colon, i.e. a mapped dot, is not a boundary)");
    g_last_pre = g_pre; if (g_pre == g_K) g_K_probed = 1;
  }
  if (g_nprobes < 100) ++g_nprobes; g_desc = 0;
  if (ND_BOOL()) { g_found = 1; g_found_pre = g_pre; *fd = 5; *cutable = ND_BOOL(); return 1; }
  return 0;
}
void temp_nomem(void) { V_ASSUME(0); }
#endif
#ifdef P_QMEEXISTS
void temp_nomem(void) { V_ASSUME(0); }
void temp_qmail(char *fn) { V_ASSUME(0); }
#endif
#ifdef P_MAILPROGRAM
void temp_rewind(void) { V_ASSUME(0); } void temp_fork(void) { V_ASSUME(0); } void temp_childcrashed(void) { V_ASSUME(0); }
#endif
