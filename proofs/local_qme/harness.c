/* C13: qmail-local.c - .qmail file selection (qmesearch, qmeexists), checkhome, mailprogram exit codes.  Real file unmodified. */
#include "verif.h"
#include <errno.h>
#include "qmail-local.c"

int g_exit = -1, g_died = -1;
void strerr_die(int e, const char *a, const char *b, const char *c, const char *d, const char *e5, const char *f, struct strerr *se) { g_died = e; V_ASSUME(0); }
void strerr_warn(const char *a, const char *b, const char *c, const char *d, const char *e, const char *f, struct strerr *se) {}
char *error_str(int e) { return "x"; }

#ifdef P_QMESEARCH
char *sext, *rawext; static char dashbuf[2] = { '-', 0 };   /* sanitised and original extension: allocations of arbitrary size */
int g_desc;      /* name under construction: 0 nothing, 1 ".qmail", 2 +dash, 3 +whole safe extension (exact), 4 +prefix of length g_pre, 5 +"default" */
int g_pre, g_nprobes, g_last_pre, g_found, g_found_pre, g_exact_probed, g_K, g_K_probed, g_default_set, g_default_off;
int stralloc_copys(stralloc *sa, char *s) { V_ASSERT(sa == &qme && s[0] == '.' && s[1] == 'q' && s[6] == 0, "C13: control file names start with .qmail"); g_desc = 1; return 1; }
int stralloc_cats(stralloc *sa, char *s)
{
  V_ASSERT(sa == &qme, "C13: supporting");
  if (g_desc == 1) { V_ASSERT(s == dash, "C13: then the dash argument"); g_desc = 2; }
  else { V_ASSERT(g_desc == 4 && s[0] == 'd' && s[1] == 'e' && s[6] == 't' && s[7] == 0, "C13: a fallback name ends in default"); g_desc = 5; }
  return 1;
}
int stralloc_cat(stralloc *sa, stralloc *sb) { V_ASSERT(sa == &qme && sb == &safeext && g_desc == 2, "C13: the exact name uses the whole sanitised extension (lower-cased, dots replaced by colons)"); g_desc = 3; return 1; }
int stralloc_catb(stralloc *sa, char *s, unsigned int n)
{
  V_ASSERT(sa == &qme && g_desc == 2, "C13: supporting");
  V_ASSERT(s == safeext.s, "C13: fallback names are built from the sanitised extension too, so the lookup cannot climb out of the home directory");
  g_desc = 4; g_pre = (int)n; return 1;
}
int env_put2(char *n, char *v) { V_ASSERT(n[0] == 'D' && __CPROVER_same_object(v, rawext), "C13: supporting: DEFAULT is a suffix of the original extension"); g_default_set = 1; g_default_off = (int)(v - rawext); return 1; }
size_t strlen(const char *s) { V_ASSERT(s == rawext, "C13: supporting"); return safeext.len; }   /* ext and safeext have the same length */
void h_qmesearch(void)
{
  int fd, cut; unsigned n = ND_UINT(); V_ASSUME(n <= 0x3fffffff);
  sext = malloc((size_t)n + 1); rawext = malloc((size_t)n + 1); V_ASSUME(sext && rawext); dashbuf[0] = '-'; dashbuf[1] = 0;
  safeext.s = sext; safeext.len = n; safeext.a = n + 1; ext = rawext; dash = dashbuf;
  g_desc = g_nprobes = g_found = g_exact_probed = g_K_probed = g_default_set = 0; g_last_pre = 0x7fffffff; g_K = ND_INT();
  qmesearch(&fd, &cut);
  V_ASSERT(g_exact_probed, "C13: the exact name is tried first");
  V_ASSERT((fd != -1) == g_found, "C13: a control file is reported exactly if one of the candidates exists");
  if (!g_found && 0 <= g_K && g_K <= (int)n && (g_K == 0 || sext[g_K - 1] == '-')) V_ASSERT(g_K_probed, "C13: every -default candidate (at each dash and the bare default) is tried, longest first");
  if (g_found && g_found_pre >= 0) V_ASSERT(g_default_set && g_default_off == g_found_pre, "C13: DEFAULT is the part of the extension matched by -default");
  if (g_found && g_found_pre >= 0 && 0 <= g_K && g_K <= (int)n && g_K > g_found_pre && (g_K == 0 || sext[g_K - 1] == '-')) V_ASSERT(g_K_probed, "C13: no longer -default candidate was skipped before the one that was used");
  V_COVER(g_found && g_found_pre > 2); V_COVER(!g_found && n > 5);
}
#endif

#ifdef P_QMEEXISTS
int g_mode, g_open_err, g_fstat_err;
int stralloc_append(stralloc *sa, char *c) { return 1; }
int open_read(char *f) { if (ND_BOOL()) { g_open_err = 1; V_HAVOC_ERRNO(); return -1; } return 5; }
int fstat(int fd, struct stat *st) { if (ND_BOOL()) { g_fstat_err = 1; return -1; } g_mode = ND_INT(); st->st_mode = (mode_t)g_mode; return 0; }
int close(int fd) { return 0; }
void h_qmeexists(void)
{
  int fd, cut = -1, r; int e;
  qme.s = "x"; qme.len = 1; g_open_err = g_fstat_err = 0; g_died = -1;
  r = qmeexists(&fd, &cut);
  V_ASSERT(r == 0 || r == 1, "C13: supporting");
  if (r == 1) {
    V_ASSERT(!g_open_err && !g_fstat_err && ((mode_t)g_mode & S_IFMT) == S_IFREG, "C13: only a regular file is used as a control file");
    V_ASSERT(!((mode_t)g_mode & auto_patrn), "C13: a control file writable by others is never used (the delivery is deferred)");
    V_ASSERT(cut == !!((mode_t)g_mode & 0100), "C13: the x bit marks a forward-only control file");
  }
  e = errno;
  if (g_open_err && r == 0) V_ASSERT(!error_temp(e) && e != EPERM && e != EACCES, "C13: a temporary or permission error while opening a control file defers the delivery instead of skipping the file");
  V_COVER(r == 1 && cut == 1);
}
void verif_died(void) { }
#endif

#ifdef P_CHECKHOME
int g_mode, g_stat_err;
int stat(const char *p, struct stat *st) { if (ND_BOOL()) { g_stat_err = 1; V_HAVOC_ERRNO(); return -1; } g_mode = ND_INT(); st->st_mode = (mode_t)g_mode; return 0; }
void h_checkhome(void)
{
  flagdoit = ND_BOOL(); g_stat_err = 0;
  checkhome();
  V_ASSERT(!g_stat_err && !((mode_t)g_mode & auto_patrn), "C13: never delivers when the home directory is writable by others or cannot be examined (defers)");
  V_ASSERT(!flagdoit || !((mode_t)g_mode & 01000), "C13: never delivers when the home directory is sticky (defers)");
  V_COVER(1);
}
#endif

#ifdef P_MAILPROGRAM
int g_wstat, g_forked;
off_t lseek(int fd, off_t o, int w) { return ND_BOOL() ? -1 : 0; }
pid_t fork(void) { int r = ND_INT(); if (r <= 0) { V_HAVOC_ERRNO(); return -1; } g_forked = 1; return r; }
int wait_pid(int *w, int pid) { g_wstat = ND_INT(); V_ASSUME(0 <= g_wstat && g_wstat <= 65535); *w = g_wstat; return pid; }
void sig_pipedefault(void) {}
int execv(const char *p, char *const a[]) { return -1; }
void _exit(int e)
{
  int code = g_wstat >> 8;
  g_exit = e;
  V_ASSERT(g_forked && !(g_wstat & 127), "C13: supporting: exits after a finished program");
  V_ASSERT(e == 100 || e == 111, "C13: supporting");
  V_ASSERT(code != 0 && code != 99, "C13: exit codes 0 and 99 of a program are successes (99: and ignore the remaining instructions)");
  V_ASSERT((e == 100) == (code == 100 || code == 64 || code == 65 || code == 70 || code == 76 || code == 77 || code == 78 || code == 112), "C13: program exit codes 100, 64, 65, 70, 76, 77, 78, 112 are permanent failures, everything else (but 0 and 99) temporary");
  V_ASSUME(0);
}
void h_mailprogram(void)
{
  static char prog[3] = "p"; int code;
  flag99 = 0; g_forked = 0; g_died = -1;
  mailprogram(prog);
  code = g_wstat >> 8;
  V_ASSERT(g_forked && !(g_wstat & 127), "C13: a program killed by a signal is a temporary failure, never success");
  V_ASSERT(code == 0 || code == 99, "C13: delivery continues only after exit code 0 or 99");
  V_ASSERT(flag99 == (code == 99), "C13: exit code 99 means success and stop processing further instructions");
  V_COVER(flag99);
}
#endif
