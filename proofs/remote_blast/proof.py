GHOST = "m_pos, m_firstdot, m_seconddot, m_prevcr, m_lonedot, m_dheld, g_pend, g_pendc, g_saw_cr, g_eof, g_readerr, g_midline, __CPROVER_errno"
PROOF = dict(
    properties=["C06", "C09"],
    title="qmail-remote.c blast(): output-stream safety monitor (no bare LF, dot-stuffing, single terminator) + decode monitor",
    functions=["qmail-remote.c:blast"],
    units=["harness.c", "stubs2.c"],
    remove_bodies={"harness.c": ["temp_read", "perm_partialline"]},
    mode="dfcc",
    loops=[
        dict(function="blast", head="for (;;)",
             invariants="m_pos == 0 && !m_prevcr && !m_lonedot && !m_dheld && !m_firstdot && !m_seconddot && flagcritical == 0"
                        " && (g_saw_cr || (!g_pend && !g_midline))",
             assigns="r, ch, " + GHOST,
             symbols={"r": "blast::1::r", "ch": "blast::1::ch"}),
        dict(function="blast", head="while (ch != '\\n')",
             invariants="!m_lonedot && flagcritical == 0 && 0 <= m_pos && m_pos <= 3"
                        " && (m_pos != 0 || ch != '.')"
                        " && (!(m_pos == 1 && m_firstdot) || ch == '.')"
                        " && (!(m_pos >= 2 && m_firstdot) || m_seconddot)"
                        " && (m_pos != 0 || !m_prevcr) && (m_dheld == m_prevcr)"
                        " && (g_saw_cr || (ch != '\\r' && g_pend && g_pendc == (unsigned char)ch && !m_prevcr && g_midline == (ch != '\\n') && !g_eof))",
             assigns="r, ch, " + GHOST,
             symbols={"r": "blast::1::r", "ch": "blast::1::ch"}),
    ],
    min_tagged=10,
    timeout=300,
    ce=dict(mode="plain", unwind=8),
    native=dict(stub_units_first=["stubs2.c"]),
    e2e="c06_blast.sh",
    replaced=["substdio_get on ssin (one arbitrary byte, EOF or error per call)", "substdio_put/substdio_flush on smtpto (monitor)",
              "temp_read, perm_partialline (do not return)"],
    assumptions=["C06: safewrite never returns an error (it calls dropped(), which exits) - so substdio_put returns 0",
                 "C06: the byte-identical decode claim is checked for messages without CR only (as the property states); with CRs only the safety monitor applies"],
    canaries=[
        dict(name="line-start-stuffing-removed", file="qmail-remote.c", literal=True,
             pattern="    if (ch == '.')\n      substdio_put(&smtpto,\".\",1);\n", repl="", expect=r"."),
        dict(name="final-dot-without-cr", file="qmail-remote.c", literal=True,
             pattern='substdio_put(&smtpto,".\\r\\n",3);', repl='substdio_put(&smtpto,".\\n",2);', expect=r"C06: no bare LF"),
        dict(name="critical-flag-after-dot", file="qmail-remote.c", literal=True,
             pattern='  flagcritical = 1;\n  substdio_put(&smtpto,".\\r\\n",3);', repl='  substdio_put(&smtpto,".\\r\\n",3);\n  flagcritical = 1;', expect=r"C09: the critical flag"),
    ],
)
