/* bodies for functions defined in qmail-remote.c itself (their real bodies are removed from the unit) */
#include "verif.h"
extern int g_eof, g_readerr, g_midline, g_saw_cr, m_lonedot;
void temp_read(void)
{
  V_ASSERT(g_readerr, "C06: supporting: temp_read only after a read error");
  V_ASSERT(!m_lonedot, "C06: no failure is reported after the end-of-data line was sent");
  V_ASSUME(0);
}
void perm_partialline(void)
{
  V_ASSERT(g_eof && (g_saw_cr || g_midline), "C06: a message is refused as a partial line only if it ends without LF");
  V_ASSERT(!m_lonedot, "C06: no failure is reported after the end-of-data line was sent");
  V_COVER(1);
  V_ASSUME(0);
}
