/* C06 (+C09 flagcritical): qmail-remote.c blast() against an output-stream safety monitor and a decode monitor.
 * The real qmail-remote.c is compiled unmodified into this unit. */
#include "verif.h"
#include "qmail-remote.c"

/* ---- ghost state ---- */
int m_pos;        /* bytes in the current output line so far, saturating at 3 */
int m_firstdot;   /* first byte of the current output line is '.' */
int m_seconddot;  /* second byte of the current output line is '.' */
int m_prevcr;     /* last output byte was CR */
int m_lonedot;    /* a line consisting of a single dot has been sent: end of data */
int m_dheld;      /* decode monitor: a CR is held back */
int g_pend;       /* an input byte has been read and its decoded image not yet been sent */
unsigned char g_pendc;
int g_saw_cr;     /* the message contains a CR: only the safety monitor applies from here on */
int g_eof, g_readerr, g_midline, g_flushed;

static void emit(unsigned char x)
{
  if (g_saw_cr) return;
  V_ASSERT(g_pend && g_pendc == x, "C06: for messages without CR a conforming receiver decodes exactly the queued bytes, in order");
  g_pend = 0;
}

static void mon_out(unsigned char c)
{
  V_ASSERT(!m_lonedot, "C06: nothing is sent after the end-of-data line CR LF . CR LF");
  if (c == '\n') {
    V_ASSERT(m_prevcr, "C06: no bare LF is sent");
    if (m_pos == 2 && m_firstdot) {
      /* the line is ".\r\n" */
      V_ASSERT(g_eof && (g_saw_cr || !g_pend), "C06: CR LF . CR LF occurs only at the very end, after the whole message has been sent");
      V_ASSERT(flagcritical == 1, "C09: the critical flag is raised before the final dot is sent");
      m_lonedot = 1;
    } else {
      V_ASSERT(!m_firstdot || m_seconddot, "C06: every line that begins with a dot is dot-stuffed");
      emit('\n');
    }
    m_dheld = 0;
    m_pos = 0; m_firstdot = 0; m_seconddot = 0; m_prevcr = 0;
    return;
  }
  /* decode monitor (receiver side: CR LF -> LF, one leading dot removed, everything else literal) */
  if (m_dheld) { emit('\r'); m_dheld = 0; }
  if (c == '\r') m_dheld = 1;
  else if (!(m_pos == 0 && c == '.')) emit(c);
  /* line tracking */
  if (m_pos == 0) m_firstdot = (c == '.');
  if (m_pos == 1) m_seconddot = (c == '.');
  if (m_pos < 3) ++m_pos;
  m_prevcr = (c == '\r');
}

ssize_t substdio_get(substdio *s, char *buf, size_t len)
{
  int r;
  V_ASSERT(s == &ssin && len == 1, "C06: supporting: blast reads the message one byte at a time from ssin");
  V_ASSERT(!m_lonedot, "C06: nothing is read after the end-of-data line was sent");
  V_ASSERT(g_saw_cr || !g_pend, "C06: every byte read is sent before the next one is read");
  if (g_eof) return 0;
  r = ND_INT();
  if (r == 0) { g_eof = 1; V_INPUT_MARK(256); return 0; }
  if (r == -1) { g_readerr = 1; V_HAVOC_ERRNO(); return -1; }
  *buf = ND_CHAR();
  V_INPUT_BYTE(*buf);
  if (*buf == '\r') g_saw_cr = 1;
  g_pend = 1; g_pendc = (unsigned char)*buf;
  g_midline = (*buf != '\n');
  return 1;
}

int substdio_put(substdio *s, const char *buf, size_t len)
{
  V_ASSERT(s == &smtpto, "C06: supporting: blast writes to smtpto only");
  V_ASSERT(len >= 1 && len <= 3, "C06: supporting: puts of 1..3 bytes");
  mon_out((unsigned char)buf[0]);
  if (len >= 2) mon_out((unsigned char)buf[1]);
  if (len >= 3) mon_out((unsigned char)buf[2]);
  return 0; /* safewrite does not return on failure (dropped()) */
}

int substdio_flush(substdio *s) { V_ASSERT(s == &smtpto, "C06: supporting: flush smtpto"); g_flushed = 1; return 0; }

void harness(void)
{
  m_pos = 0; m_firstdot = 0; m_seconddot = 0; m_prevcr = 0; m_lonedot = 0; m_dheld = 0;
  g_pend = 0; g_saw_cr = 0; g_eof = 0; g_readerr = 0; g_midline = 0; g_flushed = 0;
  flagcritical = 0;
  blast();
  V_ASSERT(m_lonedot, "C06: the payload ends with the end-of-data line");
  V_ASSERT(g_flushed, "C06: the end-of-data line is flushed to the peer");
  V_ASSERT(flagcritical == 1, "C09: blast returns with the critical flag still raised (it is cleared only after the server's reply was read)");
  V_ASSERT(g_eof && (g_saw_cr || (!g_pend && !g_midline)), "C06: blast returns only after the whole message was read and sent");
  V_COVER(g_saw_cr);
  V_COVER(!g_saw_cr);
}
