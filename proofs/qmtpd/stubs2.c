#include "verif.h"
extern char buf[1000], buf2[100]; extern char g_result0;
/* getlen: contract proved in lib_qmtpd_getlen */
unsigned long getlen(void) { unsigned long r = ND_ULONG(); V_ASSUME(r <= 2000000009ul); return r; }
/* fmt_str: copies the string, returns its length (contract; here with content for the first byte only) */
unsigned int fmt_str(char *s, char *t)
{
  unsigned k = 0; while (t[k] && k < 80) ++k;
  if (s) { V_ASSERT((__CPROVER_same_object(s, buf) && __CPROVER_POINTER_OFFSET(s) + k <= 1000) || (__CPROVER_same_object(s, buf2) && __CPROVER_POINTER_OFFSET(s) + k <= 100), "C20: reply formatting stays inside its buffers");
           if (k) s[0] = t[0]; if (__CPROVER_same_object(s, buf)) g_result0 = t[0]; }
  return k;
}
