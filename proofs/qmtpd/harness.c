/* C07 / C20: qmail-qmtpd.c main() - one QMTP message per iteration of the service loop, from an arbitrary loop state.
 * The real file is compiled unmodified; every loop carries a loop contract; the network hands out arbitrary bytes. */
#include "verif.h"
#include <errno.h>
#include "qmail-qmtpd.c"

#define FB 8
static char fb[FB]; static char rcbuf[4] = { '@', 'r', 0, 0 };
int g_rclen, g_open, g_failed, g_from, g_nto, g_closed, g_close_ok, g_replies, g_kreplies, g_exit = -1, g_msgs;
char g_result0;
void sig_pipeignore(void) {} void sig_alarmcatch(void (*f)()) {} unsigned int alarm(unsigned int s) { return 0; }
int chdir(const char *p) { return ND_BOOL() ? -1 : 0; } int control_init(void) { return ND_BOOL() ? -1 : 0; } int rcpthosts_init(void) { return ND_BOOL() ? -1 : 0; }
char *env_get(char *n) { if (n[0] == 'R') return ND_BOOL() ? (char *)rcbuf : (char *)0; if (n[0] == 'D') return 0; return ND_BOOL() ? (char *)"x" : (char *)0; }
int control_readint(int *i, char *fn) { *i = (int)ND_UINT(); return ND_BOOL() ? -1 : 0; }
size_t strlen(const char *s) { unsigned k = 0; if (s == rcbuf) return (size_t)g_rclen; while (s[k] && k < 80) ++k; return k; }
char *strcpy(char *d, const char *s)
{
  V_ASSERT(s == rcbuf && __CPROVER_same_object(d, buf) && __CPROVER_POINTER_OFFSET(d) + (unsigned long)g_rclen + 1 <= sizeof buf, "C20,C07: the recipient plus the RELAYCLIENT suffix and its NUL fit the 1000-byte buffer");
  return d;
}
time_t time(time_t *t) { return 0; }
unsigned int fmt_ulong(char *s, unsigned long u) { return 1 + ND_UINT() % 20; }   /* contract: 1..20 digits */
void received(struct qmail *q, char *a, char *b, char *c, char *d, char *e, char *f) { V_ASSERT(g_open && !g_from, "C07: the Received field precedes the message"); }
int rcpthosts(char *b, unsigned int len) { int r = ND_INT(); return r == 1 ? 1 : r == -1 ? -1 : 0; }
int stralloc_copys(stralloc *sa, char *s) { if (ND_BOOL()) return 0; sa->s = fb; sa->a = FB; sa->len = 0; return 1; }
int stralloc_append(stralloc *sa, char *c) { if (sa->len >= FB || ND_BOOL()) return 0; sa->s[sa->len++] = *c; return 1; }   /* at most 8 recipients before "out of memory" */
ssize_t substdio_get(substdio *s, char *b, size_t n) { V_ASSERT(s == &ssin && n == 1, "C20: supporting: one byte at a time"); *b = ND_CHAR(); return 1; }
int qmail_open(struct qmail *q) { if (ND_BOOL()) return -1; g_open = 1; g_failed = g_from = g_nto = g_closed = g_close_ok = 0; return 0; }
unsigned long qmail_qp(struct qmail *q) { return 5; }
void qmail_put(struct qmail *q, char *s, size_t n) { V_ASSERT(g_open && !g_from, "C07: supporting: message bytes before the envelope"); }
void qmail_fail(struct qmail *q) { g_failed = 1; }
void qmail_from(struct qmail *q, char *s) { V_ASSERT(g_open && !g_from && s == buf, "C07: supporting: one sender"); g_from = 1; }
void qmail_to(struct qmail *q, char *s) { V_ASSERT(g_from && !g_closed && s == buf, "C07: supporting: recipients after the sender"); if (g_nto < 1000) ++g_nto; }
char *qmail_close(struct qmail *q)
{
  V_ASSERT(g_open && g_from && !g_closed, "C07: supporting");
  g_closed = 1; g_close_ok = ND_BOOL() && !g_failed && g_nto > 0;   /* contract of qmail_close: "" only if nothing failed (proof qmail_close); no recipient -> qmail-queue refuses (C01) */
  return g_close_ok ? "" : (ND_BOOL() ? "Dperm" : "Ztemp");
}
int substdio_put(substdio *s, const char *b, size_t n)
{
  V_ASSERT(s == &ssout, "C07: supporting");
  if (b == buf) {   /* the per-recipient reply for an accepted recipient: "<len>:<result>," */
    V_ASSERT(g_closed, "C07: replies are sent only after the submission was closed");
    V_ASSERT((g_result0 == 'K') == (g_close_ok != 0), "C07: QMTP sends the positive acknowledgement K if and only if qmail_close reported the message queued; a queued message is never answered with a failure");
    if (g_result0 == 'K' && g_kreplies < 1000) ++g_kreplies;
    V_COVER(g_result0 == 'K'); V_COVER(g_result0 == 'D' && g_nto > 1);
  }
  if (g_replies < 1000) ++g_replies;
  return 0;
}
void _exit(int e) { g_exit = e; V_ASSUME(0); }
void harness(void)
{
  g_rclen = (int)(ND_UINT() % 2000); g_open = g_replies = g_kreplies = g_msgs = 0; rcbuf[0] = '@';
  main();
}
