GH = ("g_open, g_failed, g_from, g_nto, g_closed, g_close_ok, g_replies, g_kreplies, g_result0, g_exit, g_msgs, __CPROVER_object_whole(buf), __CPROVER_object_whole(buf2), "
      "__CPROVER_object_whole(fb), failure, bytestooverflow")
LOC = "ch, i, biglen, len, flagdos, flagsenderok, flagbother, qp, result"
OUT = "relayclientlen == (relayclient ? g_rclen : 0) && (relayclient == 0 || relayclient == rcbuf) && 0 <= g_rclen && g_rclen < 2000 && databytes + 1 != 0"
ST = "failure.s == fb && failure.len <= 8 && relayclientlen == (relayclient ? g_rclen : 0) && (relayclient == 0 || relayclient == rcbuf) && 0 <= g_rclen && g_rclen < 2000 && databytes + 1 != 0"
MSG = ST + " && g_open && !g_from && !g_closed"
RCP = ST + " && g_open && g_from && !g_closed && failure.len >= 1 && (flagbother == 0 || flagbother == 1) && (flagbother == 0) == (g_nto == 0) && g_nto >= 0 && biglen <= 2000000009ul"
SY = ["ch", "i", "biglen", "len", "flagdos", "flagsenderok", "flagbother", "qp", "result"]
def L(head, inv, nth, assigns):
    return dict(function="main", head=head, nth=nth, invariants=inv, assigns=assigns, symbols=SY)
SZ = " && (databytes == 0 || bytestooverflow != 0 || g_failed)"
PROOF = dict(
    name="qmtpd_main", properties=["C07", "C20"], units=["harness.c", "stubs2.c", "repo:substdio.c"], mode="dfcc", timeout=900, min_tagged=4, object_bits=12,
    remove_bodies={"harness.c": ["getlen"]}, unwindset=["strlen.0:82", "fmt_str.0:82"],
    loops=[
        L("for (;;) {", OUT, 0, LOC + ", " + GH),
        L("while (len > 0) {", MSG + SZ, 0, "len, ch, g_failed, bytestooverflow, g_exit"),
        L("while ((ch == 13) && len) {", MSG + SZ, 0, "len, ch, g_failed, bytestooverflow, g_exit"),
        L("while (len > 0) { /* XXX", MSG + SZ, 0, "len, ch, g_exit"),
        L("for (i = 0;i < len;++i)", MSG + " && 0 <= i && (unsigned long)i <= len && len <= 2000000009ul && flagsenderok == 0", 0, "i, ch, g_exit"),
        L("for (i = 0;i < len;++i) {", MSG + " && 0 <= i && (unsigned long)i <= len && len < 1000 && (flagsenderok == 0 || flagsenderok == 1)", 0, "i, flagsenderok, __CPROVER_object_whole(buf), g_exit"),
        L("while (biglen > 0) {", ST + " && g_open && g_from && !g_closed && (flagbother == 0 || flagbother == 1) && (flagbother == 0) == (g_nto == 0) && g_nto >= 0 && biglen <= 2000000009ul", 0,
          "biglen, len, i, ch, flagbother, failure, __CPROVER_object_whole(fb), __CPROVER_object_whole(buf), g_nto, g_exit"),
        L("for (;;) {", RCP, 1, "len, biglen, ch, g_exit"),
        L("for (i = 0;i < len;++i)", RCP + " && 0 <= i && (unsigned long)i <= len && len < biglen", 2, "i, ch, g_exit"),
        L("for (i = 0;i < len;++i) {", RCP + " && 0 <= i && (unsigned long)i <= len && len < biglen && len + (unsigned long)relayclientlen < 1000", 1, "i, __CPROVER_object_whole(buf), __CPROVER_object_whole(fb), g_exit"),
        L("for (i = 0;i < failure.len;++i)", ST + " && g_closed && 0 <= i && (unsigned)i <= failure.len && len <= 1000 && (g_result0 == 75) == (g_close_ok != 0)", 0, "i, g_replies, g_kreplies, g_exit"),
    ],
    title="qmail-qmtpd.c main(): per message - buffers never overrun for any lengths on the wire, K reply iff qmail_close reported the message queued, for any byte stream",
    functions=["qmail-qmtpd.c:main", "qmail-qmtpd.c:getcomma"],
    bounded="at most 8 recipients per message before the model's allocator reports out of memory (the real code then exits 111); everything else unbounded",
    replaced=["getlen (contract, proof lib_qmtpd_getlen)", "qmail_* (contracts, proofs qmail_*)", "received (proof received_safeput)", "rcpthosts (proof rcpthosts)", "fmt_ulong/fmt_str (contracts)", "substdio_get on the network (any byte)"],
    canaries=[
        dict(name="relayclient-length-forgotten", file="qmail-qmtpd.c", literal=True, pattern="      if (len + relayclientlen >= 1000) {", repl="      if (len >= sizeof(buf)) {", expect=r"."),
        dict(name="size-counter-set-once", edits=[dict(file="qmail-qmtpd.c", literal=True, pattern="    if (databytes) bytestooverflow = databytes + 1;\n    if (qmail_open(&qq) == -1) resources();", repl="    if (qmail_open(&qq) == -1) resources();"),
                                                 dict(file="qmail-qmtpd.c", literal=True, pattern="  if (!(databytes + 1)) --databytes;\n", repl="  if (!(databytes + 1)) --databytes;\n  if (databytes) bytestooverflow = databytes + 1;\n")], expect=r"."),
        dict(name="sender-buffer-off-by-one", file="qmail-qmtpd.c", literal=True, pattern="    if (len >= 1000) {\n      buf[0] = 0;", repl="    if (len > 1000) {\n      buf[0] = 0;", expect=r"."),
    ],
)
