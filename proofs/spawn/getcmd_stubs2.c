#include "verif.h"
extern int g_new, g_st, g_failed, g_delnum, g_docmds, delnum, flagabort;
void docmd(void)
{
  V_ASSERT(g_st == 4, "C18: a delivery command is executed exactly when its recipient field is complete");
  V_ASSERT(delnum == g_delnum, "C18: the delivery number of a command is its first byte");
  V_ASSERT(!!flagabort == !!g_failed, "C18: a command is flagged as unusable exactly if one of its fields could not be stored");
  g_st = 0; g_new = 0; g_failed = 0; if (g_docmds < 100) ++g_docmds;
}
