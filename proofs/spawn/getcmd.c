/* C18: spawn.c getcmd() - the framing of delivery commands (number byte, message name NUL, sender NUL, recipient NUL).
 * spawn.c is compiled unmodified; docmd() is replaced (proved in spawn_docmd).  The specification automaton g_st
 * lives in the stubs and is tied to the program's `stage` by the loop invariant; because one loop iteration consumes
 * exactly one byte, the invariant  i == g_app + g_start + (number byte just consumed)  lets the stubs recompute the
 * index of the byte they are handed and compare it with the input. */
#include "verif.h"
#include <errno.h>
#include "spawn.c"

int auto_spawn;
int g_st;        /* spec automaton: 0 before the number byte (or right after it, until the first name byte arrives), 1 name, 2 sender, 3 recipient, 4 command complete */
int g_app;       /* bytes appended to a field in this call */
int g_start;     /* commands whose first name byte arrived in this call */
int g_new;       /* the next append starts a new field */
int g_failed;    /* an append of the current command failed */
int g_delnum, g_docmds, g_r;

ssize_t read(int fd, void *b, size_t n)
{
  long r = ND_LONG();
  V_ASSERT(fd == 0 && b == (void *)cmdbuf && n == sizeof cmdbuf, "C18: supporting: commands are read from descriptor 0 into cmdbuf");
  __CPROVER_havoc_object(cmdbuf);
  V_ASSUME(-1 <= r && r <= (long)sizeof cmdbuf);
  if (r == -1) V_HAVOC_ERRNO();
  g_r = (int)r;
  return r;
}
int stralloc_append(stralloc *sa, char *p)
{
  int idx;
  if (g_st == 0) {
    V_ASSERT(sa == &messid && messid.len == 0, "C18: after the delivery number byte a fresh message name begins");
    g_delnum = delnum; g_st = 1; ++g_start; g_new = 0;
  }
  idx = g_app + g_start;
  V_ASSERT(0 <= idx && idx < g_r && *p == cmdbuf[idx], "C18: every byte of a delivery command is stored unchanged and in order");
  V_ASSERT(g_st >= 1 && g_st <= 3 && sa == (g_st == 1 ? &messid : g_st == 2 ? &sender : &recip), "C18: the bytes of a delivery command go to message name, sender and recipient, each up to its NUL");
  if (g_new) { V_ASSERT(sa->len == 0, "C18: a field of a delivery command starts empty (nothing of the previous command leaks into it)"); g_new = 0; }
  ++g_app;
  if (!*p) { ++g_st; g_new = 1; }
  if (ND_BOOL()) { g_failed = 1; return 0; }
  V_ASSUME(sa->len < 1000000000u);   /* storage model: length only */
  ++sa->len;
  return 1;
}
void h_getcmd(void)
{
  /* any framing state a previous call can have left behind */
  stage = ND_INT(); V_ASSUME(0 <= stage && stage <= 3); g_st = stage; g_app = 0; g_start = 0; g_docmds = 0;
  flagabort = ND_BOOL(); g_failed = flagabort; if (stage == 0) V_ASSUME(!flagabort);
  delnum = ND_INT(); V_ASSUME(0 <= delnum && delnum <= 255); g_delnum = delnum;
  g_new = ND_BOOL(); if (stage <= 1) g_new = 0;
  messid.len = ND_UINT(); sender.len = ND_UINT(); recip.len = ND_UINT();
  if (g_new) { if (stage == 2) sender.len = 0; else recip.len = 0; }
  flagreading = 1;
  getcmd();
  if (g_r > 0) {
    V_ASSERT((g_st == 0 && (stage == 0 || (stage == 1 && messid.len == 0))) || (g_st >= 1 && g_st <= 3 && stage == g_st), "C18: supporting: the framing state after the call is that of the specification");
    V_ASSERT(flagreading == 1, "C18: supporting");
  }
  if (g_r == 0) V_ASSERT(flagreading == 0 && g_docmds == 0, "C18: supporting: end of input stops command reading");
  V_COVER(g_docmds >= 2); V_COVER(g_r == 1024 && g_docmds == 1);
}
