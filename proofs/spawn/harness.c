/* C18: spawn.c docmd() - the spawners open only numerically named, regular, queue-owned message files and answer every
 * delivery command with exactly one report or one started delivery.  spawn.c is compiled unmodified. */
#include "verif.h"
#include <errno.h>
#include "spawn.c"

#define MB 256
#define NSL 4
static char mid[MB]; static char rcp[16]; static struct delivery dels[NSL + 10];
int g_K, g_nerr, g_spawned, g_opened, g_mode_ok, g_uid_ok, g_fstat_ok, g_err_first_ok, g_errbyte;
int auto_spawn;
char *g_errmsg;
int substdio_put(substdio *s, const char *b, size_t n) { if (g_errbyte == 0) { V_ASSERT((unsigned)n == 1 && (unsigned char)b[0] == (unsigned char)delnum, "C18: every report starts with the delivery number of the command it answers"); g_errbyte = 1; } return 0; }
int substdio_putflush(substdio *s, const char *b, size_t n) { V_ASSERT(g_errbyte == 1, "C18: supporting"); ++g_nerr; g_errbyte = 0; return 0; }
size_t strlen(const char *s) { return 10; }
int stralloc_copys(stralloc *sa, char *s) { return ND_BOOL(); }
unsigned int byte_rchr(char *s, unsigned int n, int c) { unsigned j = ND_UINT(); V_ASSUME(j <= n); return j; }   /* contract: last occurrence or n */
#define OKBYTE(k) (mid[k] == 0 || (mid[k] >= '0' && mid[k] <= '9') || ((k) > 0 && mid[k] == '/'))
int open_read(char *f)
{
  V_ASSERT(f == messid.s, "C18: the only file opened is the one named by the command");
  V_ASSERT(delnum >= 0 && delnum < auto_spawn && !dels[delnum].used, "C18: a delivery command is honoured only for an in-range, free delivery number");
  V_ASSERT(messid.len <= 100 && mid[0] != 0, "C18: message names are non-empty and at most 100 bytes");
  if (0 <= g_K && (unsigned)g_K < messid.len) V_ASSERT(OKBYTE(g_K), "C18: the spawners open only numerically named message files (digits, with / only as a non-leading separator): no dot, no dash, no .. can reach open()");
  if (ND_BOOL()) { V_HAVOC_ERRNO(); return -1; }
  g_opened = 1; return 7;
}
int fstat(int fd, struct stat *st) { if (ND_BOOL()) return -1; g_fstat_ok = 1; st->st_mode = (mode_t)ND_UINT(); st->st_uid = (uid_t)ND_UINT(); g_mode_ok = (st->st_mode & S_IFMT) == S_IFREG; g_uid_ok = st->st_uid == auto_uidq; return 0; }
int pipe(int p[2]) { if (ND_BOOL()) return -1; p[0] = 8; p[1] = 9; return 0; }
int g_closed9; int coe(int fd) { return 0; } int close(int fd) { if (fd == 9) g_closed9 = 1; return 0; }
int spawn(int fdmess, int fdout, char *s, char *r, int at)
{
  V_ASSERT(g_opened && g_fstat_ok && g_mode_ok && g_uid_ok, "C18: a delivery is started only for a regular file owned by the queue user");
  V_ASSERT(fdmess == 7 && s == sender.s && r == recip.s, "C18: supporting: the delivery gets this command's message, sender and recipient");
  if (ND_BOOL()) return -1;
  g_spawned = 1; return 1234;
}
void harness(void)
{
  unsigned k; int used0[NSL + 10];
  auto_spawn = 1 + ND_UINT() % NSL; d = dels;
  for (k = 0; k < NSL + 10; ++k) { dels[k].used = ND_BOOL(); used0[k] = dels[k].used; }
  __CPROVER_havoc_object(mid);
  messid.s = mid; messid.a = MB; messid.len = ND_UINT() % MB; sender.s = "s"; sender.len = 2; recip.s = rcp; recip.len = ND_UINT() % 16;
  delnum = ND_INT(); V_ASSUME(0 <= delnum && delnum <= 255); flagabort = ND_BOOL();
  g_K = ND_INT(); g_nerr = g_spawned = g_opened = g_mode_ok = g_uid_ok = g_fstat_ok = g_errbyte = g_closed9 = 0;
  docmd();
  V_ASSERT(g_nerr + g_spawned == 1, "C18: every well-formed delivery command is answered with exactly one report or starts exactly one delivery (whose report follows when it ends)");
  for (k = 0; k < NSL + 10; ++k) if ((int)k != delnum || !g_spawned) V_ASSERT(dels[k].used == used0[k], "C18: a command changes only its own delivery slot, and only when a delivery was started");
  if (g_spawned) V_ASSERT(dels[delnum].used == 1 && dels[delnum].pid == 1234, "C18: supporting: the slot records the started delivery");
  if (g_spawned) V_ASSERT(dels[delnum].fdin == 8 && dels[delnum].fdout == 9 && !g_closed9, "C04,C18: the spawner keeps its own copy of the delivery's output pipe open (end-of-file, and with it the report and the freeing of the slot, is delayed until the child was reaped)");
  V_COVER(g_spawned); V_COVER(g_nerr && g_opened);
}
