PROOF = dict(
    name="spawn_docmd", properties=["C18", "C04"], units=["harness.c"], mode="dfcc", timeout=300, min_tagged=8,
    loops=[dict(function="docmd", head="for (i = 0;i < messid.len;++i)",
                invariants="0 <= i && (unsigned)i <= messid.len && messid.s == mid && messid.len < 256 && g_nerr == 0 && g_errbyte == 0 && !g_opened && !g_spawned"
                           " && ((0 <= g_K && g_K < i) ==> (mid[g_K] == 0 || (mid[g_K] >= 48 && mid[g_K] <= 57) || (g_K > 0 && mid[g_K] == 47)))",
                assigns="i, g_nerr, g_errbyte", decreases="messid.len - (unsigned)i", symbols=["i"])],
    title="spawn.c docmd(): only numerically named, regular, queue-owned files; in-range free delivery number; exactly one report or one started delivery per command",
    functions=["spawn.c:docmd", "spawn.c:err"],
    bounded="delivery table of 4 slots (symbolic indexing of the 255-entry table does not terminate); message names of at most 255 bytes (longer ones are refused by the same length test)",
    replaced=["spawn() (the program-specific child start: proofs lspawn_child / rspawn), open_read, fstat, pipe, substdio_put*, byte_rchr (contract)"],
    canaries=[
        dict(name="cast-removed-from-digit-test", file="spawn.c", literal=True, pattern="       if ((unsigned char) (messid.s[i] - '0') > 9)", repl="       if (messid.s[i] - '0' > 9)", expect=r"."),
        dict(name="owner-test-dropped", file="spawn.c", literal=True, pattern=" if (st.st_uid != auto_uidq) /* aaack! qmailq has to be trusted! */\n  /* your security is already toast at this point. damage control... */\n  { close(fdmess); err(\"ZSorry, message has wrong owner. (#4.3.5)\\n\"); return; }\n", repl="", expect=r"C18: a delivery is started only for a regular file owned"),
        dict(name="leading-slash-allowed", file="spawn.c", literal=True, pattern="     if (!i || (messid.s[i] != '/'))", repl="     if (messid.s[i] != '/')", expect=r"."),
        dict(name="length-test-dropped", file="spawn.c", literal=True, pattern=" if (messid.len > 100) { err(\"DInternal error: messid too long. (#5.3.5)\\n\"); return; }\n", repl="", expect=r"C18: message names are non-empty"),
        dict(name="in-use-test-dropped", file="spawn.c", literal=True, pattern=" if (d[delnum].used) { err(\"ZInternal error: delnum in use. (#4.3.5)\\n\"); return; }\n", repl="", expect=r"C18: a delivery command is honoured only"),
    ],
)
