PROOFS = [dict(
    name="spawn_docmd", properties=["C18", "C04"], units=["harness.c"], mode="dfcc", timeout=300, min_tagged=8,
    loops=[dict(function="docmd", head="for (i = 0;i < messid.len;++i)",
                invariants="0 <= i && (unsigned)i <= messid.len && messid.s == mid && messid.len < 256 && g_nerr == 0 && g_errbyte == 0 && !g_opened && !g_spawned"
                           " && ((0 <= g_K && g_K < i) ==> (mid[g_K] == 0 || (mid[g_K] >= 48 && mid[g_K] <= 57) || (g_K > 0 && mid[g_K] == 47)))",
                assigns="i, g_nerr, g_errbyte", decreases="messid.len - (unsigned)i", symbols=["i"])],
    title="spawn.c docmd(): only numerically named, regular, queue-owned files; in-range free delivery number; exactly one report or one started delivery per command",
    functions=["spawn.c:docmd", "spawn.c:err"],
    bounded="delivery table of 4 slots (symbolic indexing of the 255-entry table does not terminate); message names of at most 255 bytes (longer ones are refused by the same length test)",
    replaced=["spawn() (the program-specific child start: proofs lspawn_child / rspawn), open_read, fstat, pipe, substdio_put*, byte_rchr (contract)"],
    canaries=[
        dict(name="cast-removed-from-digit-test", file="spawn.c", literal=True, pattern="       if ((unsigned char) (messid.s[i] - '0') > 9)", repl="       if (messid.s[i] - '0' > 9)", expect=r"."),
        dict(name="owner-test-dropped", file="spawn.c", literal=True, pattern=" if (st.st_uid != auto_uidq) /* aaack! qmailq has to be trusted! */\n  /* your security is already toast at this point. damage control... */\n  { close(fdmess); err(\"ZSorry, message has wrong owner. (#4.3.5)\\n\"); return; }\n", repl="", expect=r"C18: a delivery is started only for a regular file owned"),
        dict(name="leading-slash-allowed", file="spawn.c", literal=True, pattern="     if (!i || (messid.s[i] != '/'))", repl="     if (messid.s[i] != '/')", expect=r"."),
        dict(name="length-test-dropped", file="spawn.c", literal=True, pattern=" if (messid.len > 100) { err(\"DInternal error: messid too long. (#5.3.5)\\n\"); return; }\n", repl="", expect=r"C18: message names are non-empty"),
        dict(name="in-use-test-dropped", file="spawn.c", literal=True, pattern=" if (d[delnum].used) { err(\"ZInternal error: delnum in use. (#4.3.5)\\n\"); return; }\n", repl="", expect=r"C18: a delivery command is honoured only"),
    ],
),
 dict(name="spawn_getcmd", properties=["C18"], entry="h_getcmd", units=["getcmd.c", "getcmd_stubs2.c"], remove_bodies={"getcmd.c": ["docmd"]}, mode="dfcc", timeout=300, min_tagged=8,
    title="spawn.c getcmd(): command framing - number byte, name, sender, recipient, each byte stored unchanged in its field, docmd exactly once per complete command",
    functions=["spawn.c:getcmd"],
    loops=[dict(function="getcmd", head="for (i = 0;i < r;++i)",
                invariants="0 <= i && i <= r && r == g_r && r <= 1024 && 0 <= g_app && 0 <= g_start && g_app <= i && g_start <= i"
                           " && ((g_st == 0 && (stage == 0 || (stage == 1 && messid.len == 0 && i >= 1 && delnum == (int)(unsigned char)cmdbuf[i - 1]))) || (1 <= g_st && g_st <= 3 && stage == g_st && delnum == g_delnum))"
                           " && i == g_app + g_start + ((g_st == 0 && stage == 1) ? 1 : 0)"
                           " && (g_st == 0 ? (g_failed == 0 && flagabort == 0) : ((flagabort != 0) == (g_failed != 0)))"
                           " && (g_new ? (g_st == 2 ? sender.len == 0 : (g_st == 3 && recip.len == 0)) : 1)",
                assigns="i, ch, stage, flagabort, delnum, messid.len, sender.len, recip.len, g_st, g_app, g_start, g_new, g_failed, g_delnum, g_docmds",
                decreases="r - i", symbols=["i", "r", "ch"])],
    replaced=["docmd (proved in spawn_docmd)", "stralloc_append (specification automaton; storage modelled by length only)", "read (environment)"],
    canaries=[
        dict(name="sender-not-reset", file="spawn.c", literal=True, pattern="       sender.len = 0; stage = 2; break;", repl="       stage = 2; break;", expect=r"."),
        dict(name="recipient-into-sender", file="spawn.c", literal=True, pattern="       if (!stralloc_append(&recip,&ch)) flagabort = 1;", repl="       if (!stralloc_append(&sender,&ch)) flagabort = 1;", expect=r"C18: the bytes of a delivery command go to"),
        dict(name="abort-flag-not-cleared", file="spawn.c", literal=True, pattern="       flagabort = 0; stage = 0; break;", repl="       stage = 0; break;", expect=r"."),
        dict(name="docmd-on-sender-end", file="spawn.c", literal=True, pattern="       recip.len = 0; stage = 3; break;", repl="       recip.len = 0; docmd(); stage = 3; break;", expect=r"C18: a delivery command is executed exactly when"),
    ]),
]
