/* C20: the shared library kernel under its own contracts.  Each real .c file is compiled unmodified into this unit
 * (selected by -D), every loop of the code under proof carries a loop contract, inputs are unbounded unless stated. */
#include "verif.h"
#include <errno.h>
#include <stdlib.h>

/* ================= stralloc_ready / stralloc_readyplus (loop-free, full 32-bit domain) ================= */
#ifdef P_SA_READY
size_t g_req; int g_alloc_calls; void *g_old;
void *verif_malloc(size_t n) { ++g_alloc_calls; g_req = n; if (ND_BOOL()) return 0; return malloc(n); }
void *verif_realloc(void *p, size_t n) { ++g_alloc_calls; g_req = n; g_old = p; if (ND_BOOL()) return 0; return malloc(n); }   /* libc contract, content-free */
#define malloc(n) verif_malloc(n)
#define realloc(p, n) verif_realloc(p, n)
#include "stralloc_eady.c"
#undef malloc
#undef realloc
void h_sa_ready(void)
{
  stralloc sa; unsigned n = ND_UINT(), a0, len0; int plus = ND_BOOL(), r; char *s0;
  sa.len = ND_UINT(); sa.a = ND_UINT();
  if (ND_BOOL()) { sa.s = 0; } else { V_ASSUME(sa.a >= 1 && sa.a <= 1u << 20 && sa.len <= sa.a); sa.s = malloc(sa.a); V_ASSUME(sa.s != 0); }
  a0 = sa.a; len0 = sa.len; s0 = sa.s; g_alloc_calls = 0;
  r = plus ? stralloc_readyplus(&sa, n) : stralloc_ready(&sa, n);
  V_ASSERT(r == 0 || r == 1, "C20: supporting");
  if (r == 1) {
    unsigned long need = (unsigned long)n + ((plus && s0) ? (unsigned long)len0 : 0ul);
    V_ASSERT(sa.s != 0 && (unsigned long)sa.a >= need, "C20: a successful stralloc_ready/readyplus provides at least the requested capacity, computed without wrap-around");
    if (g_alloc_calls) V_ASSERT(g_req == (size_t)sa.a, "C20: the recorded capacity is exactly what was allocated");
    else V_ASSERT(sa.s == s0 && sa.a == a0, "C20: supporting: no reallocation when the capacity suffices");
    if (s0) V_ASSERT(sa.len == len0, "C20: growing an allocated stralloc keeps its length");
    else V_ASSERT(sa.len == 0, "C20: supporting: a fresh stralloc is empty");
  } else if (s0) V_ASSERT(sa.s == s0 && sa.a == a0 && sa.len == len0, "C20: a failed allocation leaves an existing stralloc untouched");
  V_COVER(r == 1 && g_alloc_calls && s0); V_COVER(r == 0 && !g_alloc_calls);
}
#endif

/* ================= stralloc_catb / copyb / append (shape + bounds; allocation and copy through contracts) ================= */
#ifdef P_SA_CAT
#include "stralloc.h"
unsigned long g_need; int g_copy_ok;
static int grow(stralloc *x, unsigned long need)
{
  if (ND_BOOL()) { errno = ENOMEM; return 0; }
  if (!x->s || x->a < need) { unsigned a = ND_UINT(); V_ASSUME((unsigned long)a >= need && a >= 1 && a <= (1u << 31)); x->s = malloc(a); V_ASSUME(x->s != 0); x->a = a; }
  return 1;
}
int stralloc_ready(stralloc *x, unsigned int n) { if (!x->s) x->len = 0; return grow(x, n); }                                   /* contract proved in sa_ready */
int stralloc_readyplus(stralloc *x, unsigned int n) { if (!x->s) { x->len = 0; return grow(x, n); } if ((unsigned long)n + x->len > 0xfffffffful) { errno = ENOMEM; return 0; } return grow(x, (unsigned long)n + x->len); }
static stralloc *g_sa;
void byte_copy(char *to, unsigned int n, char *from)
{ V_ASSERT(n == 0 || (__CPROVER_same_object(to, g_sa->s) && __CPROVER_POINTER_OFFSET(to) + (unsigned long)n <= (unsigned long)g_sa->a), "C20: the bytes appended to a stralloc stay inside its allocation"); g_copy_ok = 1; }
#include "stralloc_catb.c"
#include "stralloc_opyb.c"
#include "stralloc_pend.c"
void h_sa_cat(void)
{
  stralloc sa; unsigned n = ND_UINT(), len0; int which = ND_INT(), r; char c = 'x'; static char src[1];
  g_sa = &sa;
  if (ND_BOOL()) { sa.s = 0; sa.len = ND_UINT(); sa.a = ND_UINT(); } else { sa.a = ND_UINT(); V_ASSUME(sa.a >= 1 && sa.a <= 1u << 31); sa.len = ND_UINT(); V_ASSUME(sa.len < sa.a); sa.s = malloc(sa.a); V_ASSUME(sa.s != 0); }
  len0 = sa.s ? sa.len : 0;
  if (which == 0) r = stralloc_catb(&sa, src, n); else if (which == 1) { r = stralloc_copyb(&sa, src, n); len0 = 0; } else { r = stralloc_append(&sa, &c); n = 1; }
  if (r == 1) {
    V_ASSERT(sa.s != 0 && (unsigned long)sa.len == (unsigned long)len0 + n, "C20: append/copy lengths are exact and never wrap");
    V_ASSERT(sa.len <= sa.a, "C20: a stralloc's length never exceeds its allocation");
  }
  V_COVER(r == 1 && which == 0 && n > 5);
}
#endif

/* ================= byte_chr / byte_rchr (any length; ghost index K) ================= */
#ifdef P_BYTE_CHR
#include "byte_chr.c"
#include "byte_rchr.c"
char *g_s0; unsigned g_n0; unsigned g_K; char g_c;
unsigned int byte_chr__contract(char *s, unsigned int n, int c)
__CPROVER_requires(n <= 2000000000u && __CPROVER_is_fresh(s, n ? n : 1) && g_s0 == s && g_n0 == n && g_c == (char)c)
__CPROVER_ensures(__CPROVER_return_value <= n)
__CPROVER_ensures(__CPROVER_return_value < n ==> s[__CPROVER_return_value] == (char)c)
__CPROVER_assigns()
;
unsigned int byte_rchr__contract(char *s, unsigned int n, int c)
__CPROVER_requires(n <= 2000000000u && __CPROVER_is_fresh(s, n ? n : 1) && g_s0 == s && g_n0 == n && g_c == (char)c)
__CPROVER_ensures(__CPROVER_return_value <= n)
__CPROVER_ensures(__CPROVER_return_value < n ==> s[__CPROVER_return_value] == (char)c)
__CPROVER_assigns()
;
void h_byte_chr(void) { char *s; unsigned n; int c; byte_chr(s, n, c); }
void h_byte_rchr(void) { char *s; unsigned n; int c; byte_rchr(s, n, c); }
#endif

/* ================= scan_ulong (any digit-run length) ================= */
#ifdef P_SCAN
#include "scan_ulong.c"
char *g_s0; unsigned g_N, g_K;
unsigned int scan_ulong__contract(char *s, unsigned long *u)
__CPROVER_requires(g_N <= 2000000000u && __CPROVER_is_fresh(s, g_N + 1) && __CPROVER_is_fresh(u, sizeof(unsigned long)) && g_s0 == s && !(s[g_N] >= '0' && s[g_N] <= '9'))
__CPROVER_ensures(__CPROVER_return_value <= g_N)
__CPROVER_ensures(!(s[__CPROVER_return_value] >= '0' && s[__CPROVER_return_value] <= '9'))
__CPROVER_assigns(*u)
;
void h_scan(void) { char *s; unsigned long *u; scan_ulong(s, u); }
#endif

/* ================= getlen of qmail-qmtpd (netstring length) ================= */
#ifdef P_GETLEN
int g_exit = -1;
#include "qmail-qmtpd.c"
ssize_t substdio_get(substdio *s, char *b, size_t n) { V_ASSERT(s == &ssin && n == 1, "C20: supporting"); *b = ND_CHAR(); return 1; }
void h_getlen(void) { unsigned long r = getlen(); V_ASSERT(r <= 2000000009ul, "C20,C07: a netstring length is accepted only up to 2000000009 and its computation cannot overflow"); V_COVER(r > 1000000000ul); }
#endif

/* ================= substdio input side: feed / get / bget ================= */
#ifdef P_SUBSTDI
#include <errno.h>
#include "substdio.h"
static substdio *g_ss; unsigned g_size; char *g_ub; unsigned long g_ulen; int g_reads; long g_got;
#define IN_X(ptr, cnt) (__CPROVER_same_object((ptr), g_ss->x) && __CPROVER_POINTER_OFFSET(ptr) + (unsigned long)(cnt) <= g_size)
#define IN_U(ptr, cnt) (__CPROVER_same_object((ptr), g_ub) && __CPROVER_POINTER_OFFSET(ptr) + (unsigned long)(cnt) <= g_ulen)
void byte_copy(char *to, unsigned int n, char *from)
{ V_ASSERT(n == 0 || (IN_U(to, n) && IN_X(from, n)), "C20: substdio copies only from inside its buffer to inside the caller's buffer"); }
void byte_copyr(char *to, unsigned int n, char *from)
{ V_ASSERT(n == 0 || (IN_X(to, n) && IN_X(from, n)), "C20: substdio shifts data only inside its own buffer"); }
ssize_t my_read(int fd, char *b, size_t n)
{
  long r = ND_LONG();
  V_ASSERT(IN_X(b, n) || IN_U(b, n), "C20: read() is asked to fill only memory inside the substdio buffer or the caller's buffer");
  V_ASSERT(n > 0, "C20: supporting: no zero-length read (it would be taken for end of file)");
  V_ASSUME(-1 <= r && r <= (long)n);
  if (r == -1) { errno = ND_INT(); V_ASSUME(errno != EINTR); }   /* the EINTR retry loop of oneread() is not followed */
  ++g_reads; g_got = r;
  return r;
}
#include "substdi.c"
void h_substdi(void)
{
  substdio ss; int which = ND_INT(); long r; int p0, avail0;
  g_ss = &ss; g_size = 1 + ND_UINT() % 8192; ss.x = malloc(g_size); V_ASSUME(ss.x != 0);
  ss.p = ND_INT(); V_ASSUME(0 <= ss.p && ss.p <= (int)g_size); ss.n = (int)g_size - ss.p; ss.fd = 0; ss.op = my_read; p0 = ss.p;
  g_ulen = ND_ULONG(); V_ASSUME(1 <= g_ulen && g_ulen <= 0x7fffffff); g_ub = malloc(g_ulen); V_ASSUME(g_ub != 0); g_reads = 0; g_got = 0;
  if (which == 0) { r = substdio_feed(&ss); V_ASSERT(r >= -1 && r <= (long)g_size && (r <= 0 || r == ss.p), "C20: substdio_feed reports exactly the bytes it holds"); V_ASSERT(p0 == 0 || (r == p0 && !g_reads), "C20: supporting: buffered input is handed out before anything is read"); }
  else if (which == 1) { r = substdio_get(&ss, g_ub, g_ulen); V_ASSERT(r >= -1 && r <= (long)g_ulen, "C20: substdio_get never reports more bytes than were asked for"); V_ASSERT(p0 == 0 || r == (p0 < (long)g_ulen ? p0 : (long)g_ulen), "C20: supporting: buffered input first"); }
#ifdef DEPRECATED_FUNCTIONS_AVAILABLE
  else { r = substdio_bget(&ss, g_ub, g_ulen); V_ASSERT(r >= -1 && r <= (long)g_ulen, "C20: substdio_bget never reports more bytes than were asked for"); }
#else
  else return;
#endif
  V_ASSERT(0 <= ss.p && 0 <= ss.n && ss.p + ss.n == (int)g_size, "C20: the unread input always lies inside the substdio buffer (p + n == size)");
  V_ASSERT(g_reads <= 1, "C20: supporting: at most one read per call");
  V_COVER(which == 1 && g_reads == 1 && r > 0 && ss.p > 0); V_COVER(which == 0 && r > 0 && ss.n > 0 && g_reads);
}
#endif

/* ================= substdio output side with loop contracts: flush / put / bput / putflush / allwrite ================= */
#ifdef P_SUBSTDO2
#include <errno.h>
#include "substdio.h"
substdio g_so; char *g_x; unsigned g_size; char *g_ub; unsigned long g_ulen; unsigned long g_copied, g_len0, g_aw_done, g_aw_len;
#define IN_X(ptr, cnt) (__CPROVER_same_object((ptr), g_x) && __CPROVER_POINTER_OFFSET(ptr) + (unsigned long)(cnt) <= g_size)
#define IN_U(ptr, cnt) (__CPROVER_same_object((ptr), g_ub) && __CPROVER_POINTER_OFFSET(ptr) + (unsigned long)(cnt) <= g_ulen)
void byte_copy(char *to, unsigned int n, char *from)
{ V_ASSERT(n == 0 || (IN_X(to, n) && IN_U(from, n)), "C20: substdio copies only from inside the caller's data to inside its own buffer"); g_copied += n; }
ssize_t my_write(int fd, const char *b, size_t n)
{
  long w = ND_LONG();
  V_ASSERT(n > 0 && (IN_X(b, n) || IN_U(b, n)), "C20: write() is handed only memory inside the substdio buffer or the caller's data");
  V_ASSUME(-1 <= w && w <= (long)n);
  if (w == -1) V_HAVOC_ERRNO();
#ifdef AW_FUNC
  V_ASSERT(b == g_x + g_aw_done && n == g_aw_len - g_aw_done, "C06,C20: allwrite hands every byte of its buffer to the write operation exactly once and in order, whatever short counts the operation returns (nothing is re-sent, nothing is skipped)");
  if (w > 0) g_aw_done += (unsigned long)w;
#endif
  return w;
}
#include "substdo.c"
void h_substdo2(void)
{
  int which = ND_INT(), r; unsigned long len;
#ifdef FORCE_WHICH
  which = FORCE_WHICH;
#endif
  g_size = 1 + ND_UINT() % 8192; g_x = __CPROVER_allocate(g_size, 0);
  g_so.x = g_x; g_so.n = (int)g_size; g_so.p = ND_INT(); V_ASSUME(0 <= g_so.p && g_so.p <= g_so.n); g_so.fd = 1; g_so.op = my_write;
  g_ulen = ND_ULONG(); V_ASSUME(1 <= g_ulen && g_ulen <= 0xffffffffUL); g_ub = __CPROVER_allocate(g_ulen, 0);
  len = ND_ULONG(); V_ASSUME(len <= g_ulen); g_copied = 0; g_len0 = len;
  if (which == 0) r = substdio_put(&g_so, g_ub, len); else if (which == 1) { r = substdio_bput(&g_so, g_ub, len); if (r == 0) V_ASSERT(g_copied == len, "C20: supporting: substdio_bput passes every byte through the buffer exactly once"); }
  else if (which == 2) r = substdio_flush(&g_so); else if (which == 5) { V_ASSUME(len <= g_size); g_aw_done = 0; g_aw_len = len; r = allwrite(my_write, 1, g_x, len);
#ifdef AW_FUNC
    if (r == 0) V_ASSERT(g_aw_done == len, "C06,C20: allwrite reports success only after the whole buffer was written");
#endif
  } else r = substdio_putflush(&g_so, g_ub, len);
  V_ASSERT(r == 0 || r == -1, "C20: supporting");
  V_ASSERT(g_so.x == g_x && 0 <= g_so.p && g_so.p <= g_so.n && g_so.n == (int)g_size, "C20: the substdio output index stays within the buffer after every operation");
  V_COVER(r == 0 && which == 1 && len > 9000); V_COVER(r == 0 && which == 0 && len > 9000 && g_so.p > 0);
}
#endif
