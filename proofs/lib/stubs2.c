#include "verif.h"
#include <sys/types.h>
#ifdef P_SUBSTDO
extern int g_fail_seen;
/* allwrite (the EINTR wrapper around the function-pointer I/O boundary) is modelled, not verified */
int allwrite(ssize_t (*op)(), int fd, const char *buf, size_t len) { if (ND_BOOL()) { g_fail_seen = 1; return -1; } return 0; }
#endif
#ifdef P_GETLEN
void badproto(void) { V_ASSUME(0); } void resources(void) { V_ASSUME(0); }
#endif
