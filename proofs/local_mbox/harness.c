/* C12: qmail-local.c maildir_child(), maildir(), mailfile().  The real file is compiled unmodified. */
#include "verif.h"
#include <errno.h>
#include "qmail-local.c"

/* ---------------- shared ghost state ---------------- */
int g_exit = -1;
int g_tmp_exists, g_new_linked, g_written, g_write_failed, g_read_failed, g_dirty, g_synced, g_closed, g_alarm, g_fd_open;
int g_hdr_puts, g_copied, g_unlinked_tmp, g_name_gen, g_new_gen;
#define DFD 9

void sig_alarmcatch(void (*f)()) {} void sig_alarmdefault(void) {}
int chdir(const char *p) { if (ND_BOOL()) { V_HAVOC_ERRNO(); return -1; } return 0; }
pid_t getpid(void) { return ND_INT(); }
int gethostname(char *n, size_t l) { V_ASSERT(l == 64, "C12: supporting"); return ND_BOOL() ? -1 : 0; }
time_t time(time_t *t) { return ND_LONG(); }
unsigned int alarm(unsigned int s) { g_alarm = (int)s; return 0; }
unsigned int sleep(unsigned int s) { return 0; }
int open_excl(char *fn)
{
  V_ASSERT(fn == fntmptph, "C12: a maildir delivery creates its file under tmp/ only");
  V_ASSERT(fntmptph[0] == 't' && fntmptph[1] == 'm' && fntmptph[2] == 'p' && fntmptph[3] == '/', "C12: a maildir delivery creates its file under tmp/ only");
  V_ASSERT(g_alarm == 86400, "C12: the 24 h alarm is armed before the file is created");
  ++g_name_gen;
  if (ND_BOOL()) { V_HAVOC_ERRNO(); return -1; }
  g_tmp_exists = 1; g_fd_open = 1; return DFD;
}
static int v_put(substdio *s, size_t len)
{
  V_ASSERT(s->fd == DFD && g_fd_open, "C12: supporting: output goes to the delivery file");
  if (ND_BOOL()) { g_write_failed = 1; V_HAVOC_ERRNO(); return -1; }
  g_dirty = 1; g_synced = 0; return 0;
}
int substdio_copy(substdio *o, substdio *i)
{
  int r = ND_INT();
  V_ASSERT(g_hdr_puts == 2, "C12: the Return-Path and Delivered-To lines precede the message");
  V_ASSERT(i->fd == 0 && o->fd == DFD, "C12: the message is copied from descriptor 0");
  g_dirty = 1; g_synced = 0;
  if (r == -2) { g_read_failed = 1; V_HAVOC_ERRNO(); return -2; }
  if (r == -3) { g_write_failed = 1; V_HAVOC_ERRNO(); return -3; }
  g_copied = 1; return 0;
}
int fsync(int fd) { V_ASSERT(fd == DFD, "C12: supporting"); if (ND_BOOL()) { g_write_failed = 1; V_HAVOC_ERRNO(); return -1; } if (!g_dirty) g_synced = 1; return 0; }

/* ---------------- maildir_child ---------------- */
#ifdef P_MAILDIR_CHILD
/* contracts of fmt_ulong / fmt_strn (proofs fmt_*): write exactly the returned number of bytes, 1..20 resp. <= n.
 * (the real digit loops divide a symbolic 64-bit number 20 times per call and make this protocol proof intractable) */
static void inbuf(char *s, unsigned n) { V_ASSERT(__CPROVER_same_object(s, fntmptph) && __CPROVER_POINTER_OFFSET(s) + n <= sizeof fntmptph, "C12: the unique name fits its buffer"); }
unsigned int fmt_ulong(char *s, unsigned long u) { unsigned n = ND_UINT(); V_ASSUME(1 <= n && n <= 20); if (s) inbuf(s, n); return n; }
unsigned int fmt_strn(char *s, char *t, unsigned int max) { unsigned n = ND_UINT(); V_ASSUME(n <= max); if (s) inbuf(s, n); return n; }
char *strcpy(char *d, const char *src) { V_ASSERT(d == fnnewtph && src == fntmptph, "C12: the new/ name is derived from the tmp/ name"); d[0] = src[0]; d[1] = src[1]; d[2] = src[2]; d[3] = src[3]; g_new_gen = g_name_gen; return d; }
int substdio_put(substdio *s, const char *b, size_t len)
{
  if (g_hdr_puts == 0) V_ASSERT(b == rpline.s && (unsigned)len == rpline.len, "C12: the file starts with the Return-Path line");
  else if (g_hdr_puts == 1) V_ASSERT(b == dtline.s && (unsigned)len == dtline.len, "C12: followed by the Delivered-To line");
  else V_ASSERT(0, "C12: then exactly the message");
  if (v_put(s, len) == -1) return -1;
  ++g_hdr_puts; return 0;
}
int substdio_flush(substdio *s) { V_ASSERT(s->fd == DFD, "C12: supporting"); if (ND_BOOL()) { g_write_failed = 1; V_HAVOC_ERRNO(); return -1; } g_dirty = 0; return 0; }
int close(int fd) { V_ASSERT(fd == DFD, "C12: supporting"); g_fd_open = 0; if (ND_BOOL()) { g_write_failed = 1; V_HAVOC_ERRNO(); return -1; } g_closed = 1; return 0; }
int link(const char *a, const char *b)
{
  V_ASSERT(a == fntmptph && b == fnnewtph, "C12: the only publication is link(tmp/<name>, new/<name>)");
  V_ASSERT(b[0] == 'n' && b[1] == 'e' && b[2] == 'w' && b[3] == '/', "C12: the message becomes visible in new/");
  V_ASSERT(g_new_gen == g_name_gen && g_new_gen > 0, "C12: under the same unique name time.pid.host as the tmp/ file just created");
  V_ASSERT(g_hdr_puts == 2 && g_copied && !g_write_failed && !g_read_failed, "C12: visible in new/ only as a complete file: both header lines and the whole message were written");
  V_ASSERT(!g_dirty && g_synced && g_closed, "C12: visible in new/ only after it was flushed, fsynced and closed");
  if (ND_BOOL()) { V_HAVOC_ERRNO(); return -1; }
  g_new_linked = 1; return 0;
}
int unlink(const char *p) { V_ASSERT(p == fntmptph, "C12: only the delivery's own tmp file is removed"); g_unlinked_tmp = 1; return ND_BOOL() ? -1 : 0; }
void _exit(int e)
{
  V_ASSERT((e == 0) == (g_new_linked != 0), "C12: the child reports success exactly when the message was linked into new/");
  V_ASSERT(!g_tmp_exists || g_unlinked_tmp, "C12: the tmp file is removed on every way out");
  V_COVER(e == 0); V_COVER(e == 4); V_COVER(e == 1 && g_copied);
  V_ASSUME(0);
}
void h_maildir_child(void)
{
  static char dir[4] = "Md/";
  g_tmp_exists = g_new_linked = g_write_failed = g_read_failed = g_dirty = g_synced = g_closed = g_alarm = g_fd_open = g_hdr_puts = g_copied = g_unlinked_tmp = 0; g_name_gen = g_new_gen = 0;
  rpline.s = "R"; rpline.len = 1; dtline.s = "D"; dtline.len = 1;
  maildir_child(dir);
  V_ASSERT(0, "C12: maildir_child never returns");
}
#endif

/* ---------------- maildir (parent) ---------------- */
#ifdef P_MAILDIR
char *error_str(int e) { return "x"; }
int g_forked, g_wstat, g_died;
off_t lseek(int fd, off_t o, int w) { return ND_BOOL() ? -1 : 0; }
pid_t fork(void) { int r = ND_INT(); if (r <= 0) { V_HAVOC_ERRNO(); return -1; } g_forked = 1; return r; }   /* the child branch is proof maildir_child */
int wait_pid(int *w, int pid) { g_wstat = ND_INT(); V_ASSUME(0 <= g_wstat && g_wstat <= 65535); *w = g_wstat; return pid; }
void strerr_die(int e, const char *a, const char *b, const char *c, const char *d, const char *e5, const char *f, struct strerr *se)
{ V_ASSERT(e == 111, "C12: every failure of a maildir delivery is reported as temporary (111)"); g_died = 1; V_ASSUME(0); }
void _exit(int e) { V_ASSERT(e == 111, "C12: supporting"); V_ASSUME(0); }
void h_maildir(void)
{
  static char dir[4] = "Md/";
  g_forked = g_died = 0;
  maildir(dir);
  V_ASSERT(g_forked && (g_wstat & 127) == 0 && (g_wstat >> 8) == 0, "C12: a maildir delivery is reported successful only if the child exited 0 (= linked into new/)");
  V_COVER(1);
}
#endif

/* ---------------- mailfile (mbox) ---------------- */
#ifdef P_MAILFILE
int g_opened, g_lock_attempted, g_locked, g_pos_taken, g_pos_under_lock, g_truncated, g_died, g_stage, g_line_gfrom, g_line_pending, g_match, g_eof, g_quoted, g_need_nl;
unsigned g_linelen; char g_linebuf[64];
off_t g_pos;
int open_append(char *fn) { if (ND_BOOL()) { V_HAVOC_ERRNO(); return -1; } g_opened = 1; g_fd_open = 1; return DFD; }
int lock_ex(int fd) { V_ASSERT(fd == DFD && !g_written && !g_pos_taken, "C12: the exclusive lock is requested before anything is written or measured"); g_lock_attempted = 1; if (ND_BOOL()) { V_HAVOC_ERRNO(); return -1; } g_locked = 1; return 0; }
off_t lseek(int fd, off_t o, int w)
{
  if (fd == 0) return ND_BOOL() ? -1 : 0;
  V_ASSERT(fd == DFD, "C12: supporting");
  if (w == SEEK_CUR) { V_ASSERT(g_lock_attempted, "C12: the rollback position (previous length) is taken only after the lock was requested, i.e. under the lock"); g_pos_taken = 1; g_pos = ND_LONG(); return g_pos; }
  return ND_BOOL() ? -1 : 0;
}
static int v_line_put(substdio *s, const char *b, size_t len)
{
  V_ASSERT(g_pos_taken, "C12: nothing is appended before the previous length was recorded");
  if (v_put(s, len) == -1) return 1;    /* (the code tests for non-zero) */
  g_written = 1; return 0;
}
int substdio_put(substdio *s, const char *b, size_t len)
{
  if (g_stage == 0) V_ASSERT(b == ufline.s && (unsigned)len == ufline.len, "C12: an mbox entry starts with the From_ line");
  else if (g_stage == 1) V_ASSERT(b == rpline.s && (unsigned)len == rpline.len, "C12: then Return-Path");
  else if (g_stage == 2) V_ASSERT(b == dtline.s && (unsigned)len == dtline.len, "C12: then Delivered-To");
  else V_ASSERT(0, "C12: supporting: header lines only through substdio_put");
  ++g_stage;
  return v_line_put(s, b, len);
}
int substdio_bput(substdio *s, const char *b, size_t len)
{
  V_ASSERT(g_stage >= 3, "C12: supporting: message lines after the three header lines");
  if (len == 1 && b[0] == '>' && b != messline.s) {
    V_ASSERT(g_line_pending && g_line_gfrom && !g_quoted, "C12: a line is quoted with > exactly if it matches >*From_");
    g_quoted = 1; return v_line_put(s, b, len); }
  if (b == messline.s) {
    V_ASSERT(g_line_pending && (unsigned)len == g_linelen, "C12: every message line is appended unchanged, once");
    V_ASSERT(g_quoted == g_line_gfrom, "C12: a line is quoted with > exactly if it matches >*From_");
    g_line_pending = 0; if (!g_match) g_need_nl = 1; return v_line_put(s, b, len); }
  V_ASSERT(len == 1 && b[0] == '\n' && !g_line_pending, "C12: apart from message lines only the missing final newline and the blank separator line are added");
  if (g_need_nl) { g_need_nl = 0; g_stage = 4; }    /* the newline missing from an unterminated last line */
  else { V_ASSERT(g_eof && g_stage < 5, "C12: exactly one blank separator line follows the whole message"); g_stage = 5; }
  return v_line_put(s, b, len);
}
int substdio_flush(substdio *s) { if (ND_BOOL()) { g_write_failed = 1; V_HAVOC_ERRNO(); return 1; } g_dirty = 0; return 0; }
int gfrom(char *s, int len) { V_ASSERT(s == messline.s && g_line_pending, "C12: supporting"); g_line_gfrom = ND_BOOL(); return g_line_gfrom; }   /* proofs gfrom_* */
int getln(substdio *ss, stralloc *sa, int *match, int sep)
{
  V_ASSERT(sa == &messline && sep == '\n' && ss->fd == 0, "C12: the message is read line by line from descriptor 0");
  V_ASSERT(!g_line_pending && !g_eof, "C12: every line read is appended before the next is read");
  if (ND_BOOL()) { g_read_failed = 1; V_HAVOC_ERRNO(); return -1; }
  g_match = ND_BOOL(); g_linelen = ND_UINT(); g_quoted = 0;
  if (g_match) V_ASSUME(g_linelen >= 1);
  sa->s = g_linebuf; sa->a = 64; sa->len = g_linelen;
  *match = g_match;
  if (!g_match) g_eof = 1;
  if (g_match || g_linelen) g_line_pending = 1;
  return 0;
}
int ftruncate(int fd, off_t len) { V_ASSERT(fd == DFD && g_locked && g_pos_taken && len == g_pos, "C12: on failure the mailbox is cut back to exactly its previous length, and only if the lock is held"); g_truncated = 1; return ND_BOOL() ? -1 : 0; }
int close(int fd) { g_fd_open = 0; return 0; }
void strerr_warn(const char *a, const char *b, const char *c, const char *d, const char *e, const char *f, struct strerr *se) {}
char *error_str(int e) { return "x"; }
void strerr_die(int e, const char *a, const char *b, const char *c, const char *d, const char *e5, const char *f, struct strerr *se)
{ V_ASSERT(e == 111 && !g_written, "C12: supporting: early failures are temporary and happen before anything was appended"); V_ASSUME(0); }
void _exit(int e)
{
  V_ASSERT(e == 111, "C12: a failed mbox delivery is reported as a temporary failure");
  V_ASSERT(!g_written || !g_locked || g_truncated, "C12: if any write fails the mailbox is restored to its previous length");
  V_COVER(g_truncated && g_stage == 3); V_COVER(g_read_failed);
  V_ASSUME(0);
}
void h_mailfile(void)
{
  static char fn[4] = "Mb";
  g_opened = g_lock_attempted = g_locked = g_pos_taken = g_truncated = g_stage = g_line_pending = g_eof = g_quoted = g_need_nl = 0;
  g_written = g_write_failed = g_read_failed = g_dirty = g_synced = g_fd_open = 0;
  ufline.s = "U"; ufline.len = 1; rpline.s = "R"; rpline.len = 1; dtline.s = "D"; dtline.len = 1;
  messline.s = g_linebuf; messline.len = 0; messline.a = 64;
  mailfile(fn);
  V_ASSERT(g_stage == 5 && g_eof && !g_line_pending && !g_need_nl, "C12: a successful mbox delivery appended the From_ line, both header lines, every message line and the blank separator");
  V_ASSERT(!g_dirty && g_synced && !g_write_failed, "C12: an mbox delivery is reported successful only after the entry was flushed and fsynced");
  V_COVER(g_locked); V_COVER(!g_locked);
}
#endif
