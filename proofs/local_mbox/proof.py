GH = ("g_written, g_write_failed, g_read_failed, g_dirty, g_synced, g_stage, g_line_gfrom, g_line_pending, g_match, g_eof, g_quoted, g_need_nl, g_linelen, "
      "g_truncated, g_fd_open, messline, __CPROVER_errno")
PROOFS = [
  dict(name="local_maildir_child", properties=["C12"], entry="h_maildir_child", defines=["P_MAILDIR_CHILD"], mode="plain",
       units=["harness.c", "repo:fmt_str.c", "repo:byte_copy.c", "repo:substdio.c", "repo:error_temp.c"],
       unwind=8, cbmc_unwindset=["maildir_child.0:4"], timeout=600, min_tagged=10,
       title="qmail-local.c maildir_child(): visible in new/ only as a complete, flushed, fsynced, closed file; success iff linked; tmp removed on every exit (complete by constant unwinding)",
       functions=["qmail-local.c:maildir_child", "qmail-local.c:tryunlinktmp", "fmt_str.c:fmt_str"],
       replaced=["fmt_ulong, fmt_strn (contracts: write exactly the returned length)", "strcpy (recording stub)", "substdio_put/copy/flush, open_excl, fsync, close, link, unlink (environment, each may fail)"],
       canaries=[
           dict(name="fsync-removed", file="qmail-local.c", literal=True, pattern=" if (fsync(fd) == -1) goto fail;\n if (close(fd) == -1) goto fail; /* NFS dorks */", repl=" if (close(fd) == -1) goto fail; /* NFS dorks */", expect=r"C12: visible in new/ only after"),
           dict(name="write-error-during-copy-ignored", file="qmail-local.c", literal=True, pattern="   case -2: tryunlinktmp(); _exit(4);\n   case -3: goto fail;", repl="   case -2: tryunlinktmp(); _exit(4);", expect=r"C12: visible in new/ only as a complete file"),
           dict(name="link-before-close", file="qmail-local.c", literal=True, pattern=" if (close(fd) == -1) goto fail; /* NFS dorks */\n\n if (link(fntmptph,fnnewtph) == -1) goto fail;", repl=" if (link(fntmptph,fnnewtph) == -1) goto fail;\n if (close(fd) == -1) goto fail; /* NFS dorks */\n", expect=r"C12"),
           dict(name="tmp-left-on-read-error", file="qmail-local.c", literal=True, pattern="   case -2: tryunlinktmp(); _exit(4);", repl="   case -2: _exit(4);", expect=r"C12: the tmp file is removed"),
       ]),
  dict(name="local_maildir", properties=["C12"], entry="h_maildir", defines=["P_MAILDIR"], mode="plain", units=["harness.c"], unwind=4, timeout=120, min_tagged=2,
       title="qmail-local.c maildir(): success only if the child exited 0; everything else is a temporary failure",
       functions=["qmail-local.c:maildir"],
       canaries=[dict(name="crash-check-removed", file="qmail-local.c", literal=True, pattern=" wait_pid(&wstat,child);\n if (wait_crashed(wstat))\n   temp_childcrashed();\n switch(wait_exitcode(wstat))\n  {\n   case 0: break;\n   case 2: strerr_die1x(111,\"Unable to chdir to maildir",
                      repl=" wait_pid(&wstat,child);\n switch(wait_exitcode(wstat))\n  {\n   case 0: break;\n   case 2: strerr_die1x(111,\"Unable to chdir to maildir", expect=r"C12")]),
  dict(name="local_mailfile", properties=["C12"], entry="h_mailfile", defines=["P_MAILFILE"], mode="dfcc", units=["harness.c", "repo:substdio.c"],
       unwindset=["strlen.0:4"], timeout=300, min_tagged=12,
       loops=[dict(function="mailfile", head="for (;;)",
                   invariants="g_stage == 3 && !g_line_pending && !g_eof && !g_need_nl && g_pos_taken && g_lock_attempted && g_fd_open && !g_truncated && !g_write_failed && !g_read_failed"
                              " && ssout.fd == 9 && ss.fd == 0 && fd == 9 && flaglocked == g_locked && (flaglocked == 0 || flaglocked == 1) && pos == g_pos && messline.s == g_linebuf",
                   assigns="match, " + GH, symbols=["match", "ssout", "ss", "fd", "flaglocked", "pos"])],
       title="qmail-local.c mailfile(): lock before measuring and writing, every line once and unchanged, > quoting iff gfrom, rollback to the previous length on any failure, success only after fsync",
       functions=["qmail-local.c:mailfile"],
       replaced=["getln (any line, any length; proof getln)", "gfrom (proofs gfrom_l1/gfrom_l2)", "substdio_put/bput/flush, lock_ex, lseek, ftruncate, fsync (environment)"],
       assumptions=["C12: lock_ex gives mutual exclusion between deliveries (flock semantics are assumed, concurrent writers are not modelled)"],
       canaries=[
           dict(name="position-before-lock", file="qmail-local.c", literal=True,
                pattern=" sig_alarmcatch(temp_slowlock);\n alarm(30);\n flaglocked = (lock_ex(fd) != -1);\n alarm(0);\n sig_alarmdefault();\n\n seek_end(fd);\n pos = seek_cur(fd);\n",
                repl=" seek_end(fd);\n pos = seek_cur(fd);\n\n sig_alarmcatch(temp_slowlock);\n alarm(30);\n flaglocked = (lock_ex(fd) != -1);\n alarm(0);\n sig_alarmdefault();\n", expect=r"C12"),
           dict(name="no-rollback-on-write-error", file="qmail-local.c", literal=True, pattern=" if (flaglocked) seek_trunc(fd,pos);\n close(fd);\n _exit(111);\n}", repl=" close(fd);\n _exit(111);\n}", expect=r"C12: if any write fails"),
           dict(name="fsync-result-ignored", file="qmail-local.c", literal=True, pattern=" if (fsync(fd) == -1) goto writeerrs;\n close(fd);\n return;", repl=" fsync(fd);\n close(fd);\n return;", expect=r"C12: an mbox delivery is reported successful only"),
           dict(name="quote-dropped", file="qmail-local.c", literal=True, pattern="   if (gfrom(messline.s,messline.len))\n     if (substdio_bput(&ssout,\">\",1)) goto writeerrs;\n", repl="", expect=r"C12: a line is quoted"),
       ]),
]
