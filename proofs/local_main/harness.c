/* C13 C20: qmail-local.c main() - header-line construction (hostile envelope addresses cannot inject header lines), safeext construction,
 * and the instruction dispatch over the .qmail file: by type, in order, x-bit/+list restriction, exit 99, forwards last.
 * The real file is compiled unmodified; every function of the file that main calls is replaced by a recording stub (they have their own
 * proofs: local_qmesearch, local_checkhome, local_maildir, local_mailfile, local_mailprogram).
 * Buffers: one allocation of arbitrary capacity per stralloc whose content matters (dtline, rpline, ufline, safeext, cmds); allocation failure
 * (-> exit 111) whenever something would not fit, so every length is covered.  Contents are never copied by the stubs: whatever the buffer holds
 * stands for "any bytes", which is what the sanitising loops have to cope with.  Ghost index g_K (arbitrary) replaces "for every position". */
#include "verif.h"
#include <errno.h>
#include <stdlib.h>
#include "qmail-local.c"

char *g_dt, *g_rp, *g_uf, *g_se, *g_cm, *g_sender, *g_ext, *g_host; char **g_recips;
unsigned g_dtcap, g_rpcap, g_ufcap, g_cmcap, g_sl, g_el, g_hl, g_K, g_cmlen;
int g_died, g_exited, g_lowered, g_checkhome, g_bounce_checked, g_qmesearched, g_fd, g_fo, g_forwarded, g_count_printed, g_optcalls, g_nomem;
long g_lastoff;
static char g_small[16];

int g_n1set; unsigned long g_n1;
void tight(unsigned long extra)
{
#ifdef BOUNDED
  V_ASSERT(!g_n1set || !flagdoit || count_forward + extra <= g_n1, "C20: the filling pass of main stores no more forward addresses (plus the terminator) than the counting pass reserved");
#endif
}
void strerr_die(int e, const char *a, const char *b, const char *c, const char *d, const char *e5, const char *f, struct strerr *se)
{
  V_ASSERT(e == 100 || e == 111, "C13: qmail-local gives up only with a permanent (100) or temporary (111) failure");
  V_ASSERT(!g_forwarded, "C13: nothing can fail after the forwarding step (forwards happen last)");
  V_COVER(e == 111 && g_fo && g_qmesearched && cmds.len > 3); V_COVER(e == 100 && g_qmesearched);
  tight(0); g_died = e; V_ASSUME(0);
}
void strerr_warn(const char *a, const char *b, const char *c, const char *d, const char *e, const char *f, struct strerr *se) {}
char *error_str(int e) { return "x"; }
void _exit(int e)
{
  V_ASSERT(e == 0 && g_count_printed, "C13: main reports success only at its end, after printing the counts");
  V_ASSERT(!(flagdoit && count_forward > 0) || g_forwarded, "C13: every forward line that was reached is forwarded before success is reported (also when a later program exits 99)");
  V_COVER(g_forwarded && count_file > 0 && count_program > 0); V_COVER(flag99 && g_forwarded); V_COVER(!flagdoit && count_forward > 1);
  tight(0); g_exited = 1; V_ASSUME(0);
}
mode_t umask(mode_t m) { return 0; } void sig_pipeignore(void) {} int env_init(void) { return ND_BOOL(); }
int sgetoptmine(int argc, char **argv, char *opts) { subgetoptind = 1; if (g_optcalls++ == 0 && ND_BOOL()) return ND_BOOL() ? 'n' : 'N'; return subgetoptdone; }
int chdir(const char *d) { return ND_BOOL() ? -1 : 0; }
int env_put2(char *n, char *v) { return ND_BOOL(); }
datetime_sec now(void) { return 1; } char *myctime(datetime_sec t) { return "x\n"; }
int quote2(stralloc *sa, char *s) { V_ASSERT(sa == &foo && s == g_sender, "C13: the Return-Path carries the quoted envelope sender"); if (ND_BOOL()) return 0; foo.s = g_small; foo.a = 16; foo.len = ND_UINT(); return 1; }
size_t strlen(const char *s) { if (s == g_sender) return g_sl; V_ASSERT(s == g_host, "C13: supporting"); return g_hl; }
/* contract of str_chr: index of the first c or of the terminating NUL */
unsigned int str_chr(char *s, int c)
{
  unsigned r = ND_UINT(); unsigned rest;
  V_ASSERT(__CPROVER_same_object(s, g_ext) && c == '-', "C13: supporting: EXT2..EXT4 are suffixes of the extension");
  rest = g_el - (unsigned)(s - g_ext); V_ASSUME(r <= rest && (s[r] == '-' || (s[r] == 0 && r == rest)) ); return r;
}
/* contract of byte_rchr (proof lib_byte_rchr): index of the last c in s[0..n), n if none */
unsigned int byte_rchr(char *s, unsigned int n, int c) { unsigned r = ND_UINT(); V_ASSERT(s == g_host && n <= g_hl, "C13: supporting: HOST2..HOST4 are prefixes of the host name"); V_ASSUME(r <= n); return r; }
void case_lowerb(char *s, unsigned int n) { V_ASSERT(s == g_se && n == g_el && safeext.len == g_el, "C13: the whole extension is lower-cased"); g_lowered = 1; }
int strcmp(const char *a, const char *b)
{
  int r = ND_INT();
  if (b[0] == 'l') { V_ASSERT(__CPROVER_same_object(a, g_cm), "C13: supporting: +list is recognised on an instruction line"); if (r == 0) g_fo = 1; }
  return r;
}
static int fits(unsigned have, unsigned add, unsigned cap) { return (unsigned long)have + add + 2 <= cap; }
int stralloc_copys(stralloc *sa, char *s)
{
  if (ND_BOOL()) { g_nomem = 1; return 0; }
  if (sa == &dtline) { dtline.s = g_dt; dtline.a = g_dtcap; dtline.len = 14; if (!fits(14, 0, g_dtcap)) return 0; return 1; }
  if (sa == &rpline) { rpline.s = g_rp; rpline.a = g_rpcap; rpline.len = 14; if (!fits(14, 0, g_rpcap)) return 0; return 1; }
  if (sa == &ufline) { ufline.s = g_uf; ufline.a = g_ufcap; ufline.len = 5; if (!fits(5, 0, g_ufcap)) return 0; return 1; }
  if (sa == &safeext) { V_ASSERT(s == g_ext, "C13: the control-file name is built from the extension argument"); safeext.s = g_se; safeext.a = g_el + 1; safeext.len = g_el; return 1; }
  if (sa == &cmds) { unsigned n = ND_UINT(); V_ASSERT(s == aliasempty && cmds.len == 0, "C13: the default delivery instructions are used exactly when the control file is missing or empty"); if (!fits(n, 0, g_cmcap)) return 0; cmds.s = g_cm; cmds.a = g_cmcap; cmds.len = n; g_fo = 0; return 1; }
  V_ASSERT(sa == &envrecip || sa == &ueo, "C13: supporting"); sa->s = g_small; sa->a = 16; sa->len = ND_UINT(); return 1;
}
int stralloc_cats(stralloc *sa, char *s)
{
  if (ND_BOOL()) { g_nomem = 1; return 0; }
  if (sa == &dtline) { V_ASSERT(s[0] == '\n' && !s[1], "C13: supporting"); V_ASSERT(!(g_K < dtline.len) || g_dt[g_K] != '\n', "C13: hostile envelope addresses cannot inject header lines: the Delivered-To line contains no line break before its end"); g_dt[dtline.len++] = '\n'; return 1; }
  if (sa == &rpline) { V_ASSERT(s[0] == '>' && s[1] == '\n' && !s[2], "C13: supporting"); V_ASSERT(!(g_K < rpline.len) || g_rp[g_K] != '\n', "C13: hostile envelope addresses cannot inject header lines: the Return-Path line contains no line break before its end"); g_rp[rpline.len++] = '>'; g_rp[rpline.len++] = '\n'; return 1; }
  if (sa == &ufline) {
    if (s[0] == ' ' && !s[1] && *sender) { char c0 = g_K < g_sl ? g_sender[g_K] : 0;
      V_ASSERT(ufline.len == 5 + g_sl, "C13: supporting: the From_ line carries the whole sender");
      V_ASSERT(!(g_K < g_sl) || g_uf[5 + g_K] == ((c0 == ' ' || c0 == '\t' || c0 == '\n') ? '-' : c0), "C13: hostile envelope addresses cannot inject header lines: blanks, tabs and line breaks of the sender are replaced in the From_ line, every other byte is kept"); }
    { unsigned n = 1 + ND_UINT() % 32; if (!fits(ufline.len, n, g_ufcap)) return 0; ufline.len += n; } return 1; }
  if (sa == &cmds) { V_ASSERT(s[0] == '\n' && !s[1], "C13: supporting"); g_cm[cmds.len++] = '\n'; return 1; }
  V_ASSERT(sa == &envrecip || sa == &ueo, "C13: supporting"); sa->len = ND_UINT(); return 1;
}
int stralloc_cat(stralloc *sa, stralloc *sb)
{
  if (ND_BOOL()) { g_nomem = 1; return 0; }
  if (sa == &dtline) { unsigned n = ND_UINT(); V_ASSERT(sb == &envrecip, "C13: the Delivered-To line names the envelope recipient local@host"); if (!fits(dtline.len, n, g_dtcap)) return 0; dtline.len += n; return 1; }
  V_ASSERT(sa == &rpline && sb == &foo, "C13: supporting"); { unsigned n = ND_UINT(); if (!fits(rpline.len, n, g_rpcap)) return 0; rpline.len += n; } return 1;
}
int stralloc_copy(stralloc *sa, stralloc *sb) { V_ASSERT(sa == &foo, "C13: supporting"); if (ND_BOOL()) return 0; foo.s = g_small; foo.a = 16; foo.len = ND_UINT(); return 1; }
int stralloc_append(stralloc *sa, char *c) { V_ASSERT(sa == &foo || sa == &ueo, "C13: supporting"); return ND_BOOL(); }
int stralloc_copyb(stralloc *sa, char *s, unsigned int n) { V_ASSERT(sa == &foo && s == g_host && n <= g_hl, "C13: supporting"); return ND_BOOL(); }
int stralloc_readyplus(stralloc *sa, unsigned int n) { V_ASSERT(sa == &ufline && n == g_sl, "C13: supporting: room for the sender is reserved in the From_ line"); if (ND_BOOL() || !fits(ufline.len, n, g_ufcap)) return 0; return 1; }
int stralloc_ready(stralloc *sa, unsigned int n) { V_ASSERT(sa == &cmds, "C13: supporting"); if (ND_BOOL()) return 0; cmds.s = g_cm; cmds.a = g_cmcap; return 1; }
int slurpclose(int fd, stralloc *sa, int bufsize)
{
  unsigned n = ND_UINT();
  V_ASSERT(fd == g_fd && fd != -1 && sa == &cmds && cmds.len == 0, "C13: the instructions are read from the control file that the search selected");
  if (ND_BOOL() || !fits(n, 0, g_cmcap)) return -1; cmds.len = n; return 0;
}
void *calloc(size_t n, size_t sz)
{
  V_ASSERT(sz == sizeof(char *) && !g_n1set, "C13: supporting: one table of forward addresses");
  g_n1 = n; g_n1set = 1; g_cmlen = cmds.len;
  if (ND_BOOL()) return 0;
  /* MODEL, over-approximation: room for one entry per byte of the file (+1).  Whether the counting pass reserved enough entries for the
     filling pass is NOT decided here (it is the bounded proof local_main_recips); this proof decides dispatch and the header lines. */
#ifdef BOUNDED
  /* bounded variant: a fixed table (symbolic-size allocations make the unwound SAT encoding explode); the exact bound "what the counting pass asked
     for" is the assertion in tight() below - the filling pass writes entries 0, 1, 2, ... contiguously, so the number written decides */
  { static char *b_recips[BOUNDED + 3]; g_recips = b_recips; return g_recips; }
#else
  g_recips = malloc(((size_t)cmds.len + 2) * sizeof(char *)); V_ASSUME(g_recips != 0); return g_recips;
#endif
}
void harness(void)
{
  char *argv[10]; static char a0[] = "q", u[] = "u", hd[] = "/h", lo[] = "l", da[2], ae[] = "./M";
  hd[0] = '/'; hd[1] = 'h'; hd[2] = 0; da[0] = ND_CHAR(); da[1] = 0; u[0] = 'u'; u[1] = 0; lo[0] = 'l'; lo[1] = 0; ae[0] = '.'; ae[1] = '/'; ae[2] = 'M'; ae[3] = 0; a0[0] = 'q'; a0[1] = 0;
  g_sl = ND_UINT(); g_el = ND_UINT(); g_hl = ND_UINT(); V_ASSUME(g_sl <= 0x3fffffff && g_el <= 0x3fffffff && g_hl <= 0x3fffffff);
#ifdef BOUNDED
  { static char b_dt[17], b_rp[17], b_uf[10], b_cm[BOUNDED + 2], b_sender[2], b_ext[2], b_host[2], b_se[2]; int q;
    V_ASSUME(g_sl <= 1 && g_el <= 1 && g_hl <= 1);
    for (q = 0; q < 17; ++q) { b_dt[q] = ND_CHAR(); b_rp[q] = ND_CHAR(); } for (q = 0; q < 10; ++q) b_uf[q] = ND_CHAR(); for (q = 0; q < BOUNDED + 2; ++q) b_cm[q] = ND_CHAR();
    for (q = 0; q < 2; ++q) { b_sender[q] = ND_CHAR(); b_ext[q] = ND_CHAR(); b_host[q] = ND_CHAR(); b_se[q] = ND_CHAR(); }
    g_sender = b_sender; g_ext = b_ext; g_host = b_host; g_se = b_se; g_dt = b_dt; g_rp = b_rp; g_uf = b_uf; g_cm = b_cm;
    g_dtcap = g_rpcap = 17; g_ufcap = 10; g_cmcap = BOUNDED + 2; }
#else
  g_sender = malloc((size_t)g_sl + 1); g_ext = malloc((size_t)g_el + 1); g_host = malloc((size_t)g_hl + 1); g_se = malloc((size_t)g_el + 1);
  V_ASSUME(g_sender && g_ext && g_host && g_se);
  g_dtcap = ND_UINT(); g_rpcap = ND_UINT(); g_ufcap = ND_UINT(); g_cmcap = ND_UINT();
  V_ASSUME(g_dtcap >= 1 && g_dtcap <= 0x7fffffff && g_rpcap >= 1 && g_rpcap <= 0x7fffffff && g_ufcap >= 1 && g_ufcap <= 0x7fffffff && g_cmcap >= 1 && g_cmcap <= 0x7fffffff);
  g_dt = malloc(g_dtcap); g_rp = malloc(g_rpcap); g_uf = malloc(g_ufcap); g_cm = malloc(g_cmcap); V_ASSUME(g_dt && g_rp && g_uf && g_cm);
#endif
  g_sender[g_sl] = 0; g_ext[g_el] = 0; g_host[g_hl] = 0;
  g_K = ND_UINT(); if (g_K < g_sl) V_ASSUME(g_sender[g_K] != 0); if (g_sl > 0) V_ASSUME(g_sender[0] != 0);
  argv[0] = a0; argv[1] = u; argv[2] = hd; argv[3] = lo; argv[4] = da; argv[5] = g_ext; argv[6] = g_host; argv[7] = g_sender; argv[8] = ae; argv[9] = 0;
  g_died = -1; g_exited = g_lowered = g_checkhome = g_bounce_checked = g_qmesearched = g_fo = g_forwarded = g_count_printed = g_n1set = g_optcalls = g_nomem = 0; g_fd = -1; g_lastoff = -1; g_recips = 0; g_cmlen = 0;
  count_file = count_forward = count_program = 0; flag99 = 0; cmds.s = 0; cmds.len = 0; cmds.a = 0;
  main(9, argv);
  V_ASSERT(0, "C13: supporting: main does not return (it exits)");
}
