#include "verif.h"
#include "stralloc.h"
#include <stdlib.h>
extern char *g_cm, *g_se; extern char **g_recips; extern unsigned g_K, g_el, g_cmlen;
extern int g_lowered, g_checkhome, g_bounce_checked, g_qmesearched, g_fd, g_fo, g_forwarded, g_count_printed; extern long g_lastoff;
extern int flagdoit, flag99; extern stralloc safeext, cmds; extern unsigned long count_forward, count_file, count_program; extern char *dash; void tight(unsigned long);
void temp_nomem(void) { V_ASSUME(0); }   /* exit 111 */
void usage(void) { V_ASSUME(0); }        /* exit 100 */
void checkhome(void) { V_ASSERT(!g_qmesearched, "C13: the home directory is checked before any control file is looked for"); g_checkhome = 1; }
void bouncexf(void) { V_ASSERT(flagdoit && !g_qmesearched, "C13: the loop check (own Delivered-To line present?) runs before any instruction"); g_bounce_checked = 1; }
void qmesearch(int *fd, int *cutable)
{
  V_ASSERT(g_checkhome && (g_bounce_checked || !flagdoit), "C13: never delivers before the home directory was checked and the loop check was made");
  V_ASSERT(g_lowered && safeext.s == g_se && safeext.len == g_el, "C13: the control file is selected by the lower-cased extension");
  V_ASSERT(!(g_K < g_el) || g_se[g_K] != '.', "C13: every dot of the extension is replaced by a colon before the lookup (it cannot climb out of the home directory)");
  g_qmesearched = 1; g_fd = ND_BOOL() ? -1 : 5; *fd = g_fd; if (g_fd != -1) { g_fo = ND_BOOL(); *cutable = g_fo; }
}
int qmeox(char *d) { return ND_BOOL() ? 0 : -1; }
static void instr(char *p, int kind)
{
  long off;
  V_ASSERT(flagdoit, "C13: nothing is delivered in dry-run mode (-n)");
  V_ASSERT(__CPROVER_same_object(p, g_cm), "C13: supporting: instructions come from the control file");
  off = p - g_cm;
  V_ASSERT(off > g_lastoff && off < (long)g_cmlen, "C13: instructions are executed in the order of their lines, each at most once");
  V_ASSERT(!flag99, "C13: after a program exited 99 no further instruction is executed");
  V_ASSERT(!g_forwarded, "C13: forwarding happens only after all other instructions");
  V_ASSERT(!g_fo, "C13: file and program instructions are refused when the .qmail file is executable or +list was seen");
  if (kind == 0) V_ASSERT(p[0] == '.' || p[0] == '/', "C13: a line starting with . or / is a mailbox delivery");
  else V_ASSERT(off >= 1 && p[-1] == '|', "C13: a line starting with | is a program delivery (the command is the rest of the line)");
  g_lastoff = off;
}
void maildir(char *fn) { instr(fn, 0); } void mailfile(char *fn) { instr(fn, 0); }
void mailprogram(char *prog) { instr(prog, 1); flag99 = ND_BOOL(); }
void sayit(char *type, char *cmd, unsigned int len) { V_ASSERT(!flagdoit && __CPROVER_same_object(cmd, g_cm) && (long)(cmd - g_cm) + (long)len <= (long)g_cmlen, "C13,C20: the dry-run report shows a part of the instruction line"); }
void mailforward(char **recips)
{
  tight(1);
  V_ASSERT(flagdoit && !g_forwarded && recips == g_recips, "C13: forwarding happens once, with the collected addresses");
  V_ASSERT(count_forward >= 1 && recips[count_forward] == 0, "C13: the list of forward addresses is terminated after the last collected one");
  V_ASSERT(!(g_K < count_forward) || __CPROVER_same_object(recips[g_K], g_cm), "C13: every forward address is (a suffix of) a line of the control file");
  V_COVER(count_forward >= 2 && g_K == 1 && count_file >= 1);
  g_forwarded = 1;
}
void count_print(void) { g_count_printed = 1; }
