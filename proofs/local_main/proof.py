SAN = "%s.s == %s && (unsigned long)%s.len + 2 <= %s && i <= %s.len && (!(g_K < i) || %s[g_K] != 10)"
UF = ("ufline.s == g_uf && ufline.len == 5 && len == g_sl && sender == g_sender && (unsigned long)g_sl + 7 <= g_ufcap && i <= len"
      " && (!(g_K < i) || g_uf[5 + g_K] == ((g_sender[g_K] == 32 || g_sender[g_K] == 9 || g_sender[g_K] == 10) ? 45 : g_sender[g_K]))")
CM = "cmds.s == g_cm && cmds.len <= g_cmcap && i <= j && j <= cmds.len && numforward <= j"
DISP = (CM + " && cmds.len == g_cmlen && recips == g_recips && !flag99 && !g_forwarded && (flagdoit ? count_forward == numforward : numforward == 0)"
        " && g_lastoff < (long)i && (!(g_K < numforward) || __CPROVER_same_object(g_recips[g_K], g_cm)) && flagforwardonly == g_fo && (g_fo == 0 || g_fo == 1)")
SYM = ["i", "j", "numforward", "recips", "flagforwardonly"]
MAIN = dict(
    name="local_main", properties=["C13", "C20"], units=["harness.c", "stubs2.c"], mode="dfcc", timeout=900, min_tagged=20, unwind=30, cbmc_flags=["--no-pointer-primitive-check"],
    remove_bodies={"harness.c": ["temp_nomem", "usage", "checkhome", "bouncexf", "qmesearch", "qmeox", "maildir", "mailfile", "mailprogram", "sayit", "mailforward", "count_print"]},
    unwindset=[dict(function="main", head="while ((opt = getopt(argc,argv,\"nN\")) != opteof)", bound=3)],
    loops=[
        dict(function="main", head="for (i = 0;i <", nth=0, invariants=SAN % ("dtline", "g_dt", "dtline", "g_dtcap", "dtline", "g_dt"), assigns="i, __CPROVER_object_whole(g_dt)", symbols=["i"]),
        dict(function="main", head="for (i = 0;i <", nth=1, invariants=SAN % ("rpline", "g_rp", "rpline", "g_rpcap", "rpline", "g_rp"), assigns="i, __CPROVER_object_whole(g_rp)", symbols=["i"]),
        dict(function="main", head="for (i = 0;i <", nth=2, invariants=UF, assigns="i, ch, __CPROVER_object_whole(g_uf)", symbols=["i", "len", "ch"]),
        dict(function="main", head="for (i = 0;i <", nth=3, invariants="safeext.s == g_se && safeext.len == g_el && i <= g_el && g_lowered && (!(g_K < i) || g_se[g_K] != 46)", assigns="i, __CPROVER_object_whole(g_se)", symbols=["i"]),
        dict(function="main", head="for (j = 0;j < cmds.len;++j)", nth=0, invariants=CM, assigns="i, j, numforward", symbols=SYM),
        dict(function="main", head="for (j = 0;j < cmds.len;++j)", nth=1, invariants=DISP,
             assigns="i, j, numforward, flagforwardonly, __CPROVER_object_whole(g_cm), __CPROVER_object_whole(g_recips), count_file, count_forward, count_program, flag99, g_lastoff, g_fo, g_died", symbols=SYM),
        dict(function="main", head="while ((k > i) &&", invariants="cmds.s == g_cm && i <= k && k <= j && j < cmds.len && cmds.len <= g_cmcap && g_cm[k] == 0", assigns="k, __CPROVER_object_whole(g_cm)", symbols=["i", "j", "k"]),
    ],
    title="qmail-local.c main(): Delivered-To, Return-Path and From_ lines free of injected line breaks for any addresses; extension lower-cased with dots mapped to colons; .qmail instructions dispatched by type, in order, x-bit/+list restriction, exit 99, forwards last - for any control file of any length",
    functions=["qmail-local.c:main"],
    replaced=["checkhome, bouncexf, qmesearch, qmeox, maildir, mailfile, mailprogram, mailforward, sayit, count_print (recording stubs; own proofs local_*)", "stralloc_*, quote2, env_put2, slurpclose, calloc (models; every allocation may fail)",
              "str_chr, byte_rchr, str_len, case_lowerb (contracts)", "strcmp (oracle; a match on +list is recorded)"],
    assumptions=["C20: the table of forward addresses is modelled with room for one entry per byte of the control file: whether the counting pass of main reserves enough entries for the filling pass is NOT decided by this proof (bounded proof local_main_recips)",
                 "C13: which byte ends a maildir line (trailing /) is not checked by the stubs; lower-casing itself is case_lowerb's contract"],
    canaries=[
        dict(name="rpline-sanitised-over-wrong-length", file="qmail-local.c", literal=True, pattern=" for (i = 0;i < rpline.len;++i) if (rpline.s[i] == '\\n') rpline.s[i] = '_';", repl=" for (i = 0;i < foo.len;++i) if (rpline.s[i] == '\\n') rpline.s[i] = '_';", expect=r"."),
        dict(name="exit-on-99-skips-forward", file="qmail-local.c", literal=True, pattern="     if (flag99) break;", repl="     if (flag99) { count_print(); _exit(0); }", expect=r"C13: every forward line that was reached is forwarded"),
        dict(name="xbit-ignored-for-programs", file="qmail-local.c", literal=True, pattern='\t if (flagforwardonly) strerr_die1x(111,"Uh-oh: .qmail has prog delivery but has x bit set. (#4.7.0)");\n', repl="", expect=r"C13: file and program instructions are refused"),
        dict(name="dots-not-mapped", file="qmail-local.c", literal=True, pattern="   if (safeext.s[i] == '.')\n     safeext.s[i] = ':';", repl="   if (safeext.s[i] == '.' && i)\n     safeext.s[i] = ':';", expect=r"."),
        dict(name="tab-kept-in-from-line", file="qmail-local.c", literal=True, pattern="     if ((ch == ' ') || (ch == '\\t') || (ch == '\\n')) ch = '-';", repl="     if ((ch == ' ') || (ch == '\\n')) ch = '-';", expect=r"."),
    ],
)

PROOFS = [MAIN,
  dict(name="local_main_recips", properties=["C20", "C13"], units=["harness.c", "stubs2.c"], mode="plain", defines=["BOUNDED=6"], timeout=900, min_tagged=20, unwind=19, slow=True,
       remove_bodies=MAIN["remove_bodies"],
       title="qmail-local.c main(): the table of forward addresses sized by the counting pass is never overrun by the filling pass, for every .qmail file of <= 6 bytes (exact allocation; same harness and obligations as local_main)",
       functions=["qmail-local.c:main"], bounded=".qmail files of at most 6 bytes over the full byte alphabet (sender, extension, host of at most 1 byte); the table of forward addresses is allocated exactly as requested",
       canaries=[dict(name="blank-lines-not-counted", file="qmail-local.c", literal=True, pattern="     switch(cmds.s[i]) { case '#': case '.': case '/': case '|': break;", repl="     switch(cmds.s[i]) { case '#': case '.': case '/': case '|': case ' ': case '\\t': break;", expect=r".")]),
]
