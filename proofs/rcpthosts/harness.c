/* C08: rcpthosts.c rcpthosts(): the recipient-host policy as "first hit over ordered candidates".
 * constmap() and cdb_seek() are recording oracles; ghost index K (arbitrary) carries "no candidate skipped". */
#include "verif.h"
#include "rcpthosts.c"

#define HMAX 1024
char g_host[HMAX];
int g_domlen;          /* length of the domain handed to stralloc_copyb */
int g_lowered;         /* case_lowerb ran over the whole domain copy */
int g_hit, g_hit_cdb;  /* an oracle has answered "listed" */
int g_last_list, g_last_cdb;   /* offset of the most recent probe of each kind (-1 none) */
int g_K;               /* ghost index: an arbitrary offset into the domain */
int g_K_list, g_K_cdb; /* offset K has been probed */
int g_cdb_err, g_copy_failed, g_has_at;

#define CAND(o) ((o) == 0 || g_host[o] == '.')

int stralloc_copyb(stralloc *sa, char *s, unsigned int n)
{
  V_ASSERT(sa == &host, "C08: supporting: the domain is copied into the private buffer");
  if (ND_BOOL()) { g_copy_failed = 1; V_HAVOC_ERRNO(); return 0; }
  V_ASSUME(n < HMAX);      /* domain restriction: domains shorter than 1024 bytes (addresses are at most 900) */
  g_domlen = (int)n;
  sa->s = g_host; sa->len = n; sa->a = HMAX;
  return 1;
}
void case_lowerb(char *s, unsigned int len)
{
  V_ASSERT(s == g_host && (int)len == g_domlen, "C08: the whole domain is lower-cased (matching ignores case)");
  g_lowered = 1;
}
unsigned int byte_rchr(char *s, unsigned int n, int c)
{
  /* contract of byte_rchr (proof byte_rchr): index of the last occurrence, n if none */
  unsigned int j = ND_UINT();
  V_ASSUME(j <= n);
  if (j < n) { V_ASSUME(s[j] == (char)c); g_has_at = 1; }
  return j;
}
static int probe(char *s, int len, int *last, int *kflag)
{
  long off = s - g_host;
  V_ASSERT(__CPROVER_same_object(s, g_host) && off >= 0 && off + len == g_domlen, "C08: every probe is a suffix of the recipient's domain");
  V_ASSERT(g_lowered, "C08: the domain is lower-cased before any list is consulted");
  V_ASSERT(CAND(off), "C08: only the whole domain and its dot-suffixes (.example.org) are looked up");
  V_ASSERT(off > *last, "C08: candidates are tried from the most specific to the least, each once");
  V_ASSERT(!g_hit && !g_hit_cdb, "C08: nothing is looked up after a hit");
  *last = (int)off;
  if (off == g_K) *kflag = 1;
  return 0;
}
char *constmap(struct constmap *cm, char *s, int len)
{
  V_ASSERT(cm == &maprh, "C08: supporting: rcpthosts map");
  V_ASSERT(g_last_cdb == -1, "C08: supporting: the compiled list is consulted after the plain list");
  probe(s, len, &g_last_list, &g_K_list);
  if (ND_BOOL()) { g_hit = 1; return "x"; }
  return 0;
}
int cdb_seek(int fd, char *key, unsigned int len, uint32 *dlen)
{
  int r = ND_INT();
  V_ASSERT(fd == fdmrh && fdmrh != -1, "C08: supporting: morercpthosts.cdb descriptor");
  probe(key, (int)len, &g_last_cdb, &g_K_cdb);
  if (r == 1) { g_hit_cdb = 1; return 1; }
  if (r == -1) { g_cdb_err = 1; V_HAVOC_ERRNO(); return -1; }
  return 0;
}

void harness(void)
{
  char *buf; int len = ND_INT(), r, flag0, fd0;
  V_ASSUME(0 <= len && len <= 2000);
  buf = malloc(len ? len : 1);
  V_ASSUME(buf != 0);
  g_K = ND_INT();
  g_domlen = -1; g_lowered = g_hit = g_hit_cdb = g_cdb_err = g_copy_failed = g_has_at = g_K_list = g_K_cdb = 0; g_last_list = g_last_cdb = -1;
  host.s = 0; host.len = 0; host.a = 0;
  flag0 = flagrh; fd0 = fdmrh;
  __CPROVER_havoc_object(g_host);
  r = rcpthosts(buf, len);
  V_ASSERT(r == 1 || r == 0 || r == -1, "C08: supporting: result is yes, no or error");
  if (flag0 != 1) V_ASSERT(r == 1, "C08: without a rcpthosts file every recipient is allowed (documented open configuration)");
  else if (!g_has_at) V_ASSERT(r == 1, "C08: addresses without @ are allowed");
  else {
    V_ASSERT((r == 1) == (g_hit || g_hit_cdb), "C08: a recipient is accepted exactly when its domain or one of its dot-suffixes is listed");
    V_ASSERT((r == -1) == (g_cdb_err || g_copy_failed), "C08: a lookup error is reported as an error (the caller defers), never as yes or no");
    if (r == 0 && 0 <= g_K && g_K < g_domlen && CAND(g_K)) {
      V_ASSERT(g_K_list, "C08: before refusing, every candidate suffix was looked up in rcpthosts");
      V_ASSERT(fd0 == -1 || g_K_cdb, "C08: before refusing, every candidate suffix was looked up in morercpthosts.cdb");
    }
  }
  V_COVER(r == 0 && g_domlen > 3 && fd0 != -1); V_COVER(r == 1 && g_hit_cdb); V_COVER(r == -1);
}
