GH = "g_domlen, g_lowered, g_hit, g_hit_cdb, g_last_list, g_last_cdb, g_K_list, g_K_cdb, g_cdb_err, __CPROVER_errno"
INV = ("0 <= j && j <= len && len == g_domlen && buf == g_host && g_lowered && !g_hit && !g_hit_cdb && !g_cdb_err && %s < j"
       " && ((0 <= g_K && g_K < j && (g_K == 0 || g_host[g_K] == 46)) ==> %s)")
SYM = ["j", "len", "buf"]
PROOF = dict(
    properties=["C08"],
    title="rcpthosts.c rcpthosts(): candidates = whole domain and dot-suffixes, in order, none skipped, lower-cased first, first hit decides, cdb error -> -1",
    functions=["rcpthosts.c:rcpthosts"],
    units=["harness.c"],
    mode="dfcc",
    loops=[
        dict(function="rcpthosts", head="for (j = 0;j < len;++j)", nth=0,
             invariants=INV % ("g_last_list", "g_K_list") + " && g_last_cdb == -1 && !g_K_cdb",
             assigns="j, g_last_list, g_K_list, g_hit", decreases="len - j", symbols=SYM),
        dict(function="rcpthosts", head="for (j = 0;j < len;++j)", nth=1,
             invariants=INV % ("g_last_cdb", "g_K_cdb"),
             assigns="j, r, dlen, g_last_cdb, g_K_cdb, g_hit_cdb, g_cdb_err, __CPROVER_errno", decreases="len - j",
             symbols=["j", "len", "buf", "r", "dlen"]),
    ],
    min_tagged=10, timeout=300,
    replaced=["constmap, cdb_seek (recording oracles: what the lists contain is configuration)", "byte_rchr (contract)", "stralloc_copyb, case_lowerb (contracts)"],
    assumptions=["C08: recipient domains shorter than 1024 bytes (addrparse limits addresses to 900)"],
    canaries=[
        dict(name="skip-whole-domain", file="rcpthosts.c", literal=True, pattern="    if (!j || (buf[j] == '.'))\n      if (constmap(", repl="    if (buf[j] == '.')\n      if (constmap(", expect=r"."),
        dict(name="probe-at-dash-too", file="rcpthosts.c", literal=True, pattern="    if (!j || (buf[j] == '.'))\n      if (constmap(", repl="    if (!j || (buf[j] == '.') || (buf[j] == '-'))\n      if (constmap(", expect=r"C08: only the whole domain"),
        dict(name="cdb-error-swallowed", file="rcpthosts.c", literal=True, pattern="\tif (r) return r;", repl="\tif (r == 1) return r;", expect=r"."),
        dict(name="no-lowercasing", file="rcpthosts.c", literal=True, pattern="  case_lowerb(buf,len);\n", repl="", expect=r"C08: the domain is lower-cased"),
    ],
)
