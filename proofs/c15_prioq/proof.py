def mk(name, entry, n, tier, fn, count, canaries=(), timeout=900):
    return dict(name=name, slow=True, properties=["C15"], entry=entry, mode="plain", units=["harness.c"],
                defines=["NMAX=%d" % n] + ([] if count else ["NOCOUNT"]),
                unwind=n + 3, cbmc_unwindset=["%s.0:8" % fn], backend="kissat", tier=tier, timeout=timeout, min_tagged=3,
                title="prioq.c %s: heap order%s for every heap of <= %d elements" % (fn, ", size and multiset of elements preserved" if count else " and size", n + 1),
                functions=["prioq.c:" + fn, "prioq.c:prioq_min"],
                bounded="heaps of at most %d elements, arbitrary 64-bit keys and ids; loops fully unwound (unwinding assertions pass)%s" % (n + 1, "" if count else "; multiset preservation checked in the smaller run"),
                canaries=list(canaries))
PROOFS = [
    mk("prioq_insert_b", "h_insert", 15, "quick", "prioq_insert", False,
       [dict(name="parent-index-wrong", file="prioq.c", literal=True, pattern="i = (j - 1)/2;", repl="i = j/2;", expect=r"C15")]),
    mk("prioq_delmin_b", "h_delmin", 15, "quick", "prioq_delmin", False,
       [dict(name="child-choice-inverted", file="prioq.c", literal=True, pattern="if (pq->p[j - 1].dt <= pq->p[j].dt) --j;", repl="if (pq->p[j - 1].dt > pq->p[j].dt) --j;", expect=r"C15")]),
    mk("prioq_insert_m", "h_insert", 7, "quick", "prioq_insert", True,
       [dict(name="last-store-dropped", file="prioq.c", literal=True, pattern=" pq->p[j] = *pe;\n return 1;", repl=" if (j) pq->p[j] = *pe;\n return 1;", expect=r"C15")]),
    mk("prioq_delmin_m", "h_delmin", 7, "quick", "prioq_delmin", True,
       [dict(name="last-element-lost", file="prioq.c", literal=True, pattern=" pq->p[i] = pq->p[n];\n pq->len = n;", repl=" if (i) pq->p[i] = pq->p[n];\n pq->len = n;", expect=r"C15")]),
    mk("prioq_insert_b31", "h_insert", 31, "thorough", "prioq_insert", False, timeout=1800),
    mk("prioq_delmin_b31", "h_delmin", 31, "thorough", "prioq_delmin", False, timeout=3600),
    mk("prioq_insert_m15", "h_insert", 15, "thorough", "prioq_insert", True, timeout=1800),
    mk("prioq_delmin_m15", "h_delmin", 15, "thorough", "prioq_delmin", True, timeout=3600),
]
