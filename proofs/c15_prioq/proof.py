def mk(name, entry, n, tier, fn, canaries=()):
    return dict(name=name, properties=["C15"], entry=entry, mode="plain", units=["harness.c"], defines=["NMAX=%d" % n],
                unwind=n + 3, tier=tier, timeout=1200, min_tagged=3,
                title="prioq.c %s: heap order, size and multiset preserved for every heap of <= %d elements" % (fn, n + 1),
                functions=["prioq.c:" + fn, "prioq.c:prioq_min"],
                bounded="heaps of at most %d elements, arbitrary keys and ids; loops fully unwound (unwinding assertions pass)" % (n + 1),
                canaries=list(canaries))
PROOFS = [
    mk("prioq_insert_b", "h_insert", 31, "quick", "prioq_insert",
       [dict(name="parent-index-wrong", file="prioq.c", literal=True, pattern="i = (j - 1)/2;", repl="i = j/2;", expect=r"C15")]),
    mk("prioq_delmin_b", "h_delmin", 31, "quick", "prioq_delmin",
       [dict(name="child-choice-inverted", file="prioq.c", literal=True, pattern="if (pq->p[j - 1].dt <= pq->p[j].dt) --j;", repl="if (pq->p[j - 1].dt > pq->p[j].dt) --j;", expect=r"C15")]),
    mk("prioq_insert_b255", "h_insert", 255, "thorough", "prioq_insert"),
    mk("prioq_delmin_b255", "h_delmin", 255, "thorough", "prioq_delmin"),
]
