/* C15 (bounded stand-in): prioq.c heap order, for every heap of at most NMAX elements with arbitrary keys.
 * Quantified heap-order invariants are out of reach of the installed solvers (DESIGN 2.9), so the loops are
 * fully unwound for a bounded size; labelled bounded, never counted as proved. */
#include "verif.h"
#include <stdlib.h>
/* the array is given enough capacity up front: the (re)allocation paths of prioq_readyplus must be unreachable
 * (CBMC's realloc model with a symbolic size makes even bounded runs blow up) */
#define realloc(p, n) verif_no_realloc(p, n)
#define malloc(n) verif_no_realloc(0, n)
static void *verif_no_realloc(void *p, size_t n) { V_ASSERT(0, "C15: supporting: capacity suffices, no reallocation in this bounded run"); V_ASSUME(0); return 0; }
#include "prioq.c"

#ifndef NMAX
#define NMAX 31
#endif

static struct prioq_elt arr[NMAX + 1];
static prioq pq;

static int heap_ok(unsigned n)
{
  unsigned k;
  for (k = 1; k < n; ++k)
    if (arr[(k - 1) / 2].dt > arr[k].dt) return 0;
  return 1;
}
static unsigned count(unsigned n, datetime_sec dt, unsigned long id)
{
  unsigned k, c = 0;

  for (k = 0; k < n; ++k) if (arr[k].dt == dt && arr[k].id == id) ++c;
  return c;
}
static void setup(unsigned maxlen)
{
  unsigned n = ND_UINT();
  V_ASSUME(n <= maxlen);
  __CPROVER_havoc_object(arr);
  pq.p = arr; pq.len = n; pq.a = NMAX + 1;
  V_ASSUME(heap_ok(n));
}

void h_insert(void)
{
  struct prioq_elt pe, g;
  unsigned n0, c0;
  int r;
  setup(NMAX);
  n0 = pq.len;
  pe.dt = ND_LONG(); pe.id = ND_ULONG();
  g.dt = ND_LONG(); g.id = ND_ULONG();           /* ghost element: multiset preservation */
  c0 = count(n0, g.dt, g.id);
  r = prioq_insert(&pq, &pe);
  V_ASSERT(r == 1 && pq.len == n0 + 1 && pq.p == arr, "C15: insert adds exactly one element (no reallocation needed here)");
  V_ASSERT(heap_ok(pq.len), "C15: prioq_insert re-establishes heap order");
#ifndef NOCOUNT
  V_ASSERT(count(pq.len, g.dt, g.id) == c0 + (g.dt == pe.dt && g.id == pe.id), "C15: prioq_insert keeps every element and adds exactly the new one");
#endif
  V_COVER(n0 == NMAX);
}

void h_delmin(void)
{
  struct prioq_elt g, m;
  unsigned n0, c0, k;
  setup(NMAX + 1);
  n0 = pq.len;
  g.dt = ND_LONG(); g.id = ND_ULONG();
  c0 = count(n0, g.dt, g.id);
  if (n0) {
    int r = prioq_min(&pq, &m);
    V_ASSERT(r == 1 && m.dt == arr[0].dt && m.id == arr[0].id, "C15: prioq_min returns the root");
    for (k = 0; k < n0; ++k) V_ASSERT(m.dt <= arr[k].dt, "C15: in a heap-ordered queue the root is a minimum (earliest due first)");
  } else
    V_ASSERT(prioq_min(&pq, &m) == 0, "C15: prioq_min of an empty queue reports empty");
  prioq_delmin(&pq);
  V_ASSERT(pq.len == (n0 ? n0 - 1 : 0), "C15: delmin removes exactly one element");
  V_ASSERT(heap_ok(pq.len), "C15: prioq_delmin re-establishes heap order");
#ifndef NOCOUNT
  if (n0) V_ASSERT(count(pq.len, g.dt, g.id) == c0 - (g.dt == m.dt && g.id == m.id), "C15: prioq_delmin removes exactly the root and keeps every other element");
#endif
  V_COVER(n0 == NMAX + 1);
}
