/* C11: the constant-database primitives shared by the writer (qmail-newu, cdbmake_*) and the reader (cdb_seek). */
#include "verif.h"
#include "uint32.h"
#include "cdb.h"
#include "cdbmake.h"

#ifdef P_PACK
void h_pack(void)
{
  unsigned char b[4]; uint32 x = ND_UINT();
  cdbmake_pack(b, x);
  V_ASSERT(cdb_unpack(b) == x, "C11: a number written by the database compiler is read back unchanged by the reader (all 2^32 values)");
  V_ASSERT(b[0] == (x & 255) && b[3] == (x >> 24), "C11: supporting: little-endian on-disk format");
}
#endif

#ifdef P_HASH
#define HN 12
void h_hash(void)
{
  static unsigned char key[HN]; unsigned len = ND_UINT(), k; uint32 h = CDBMAKE_HASHSTART;
  V_ASSUME(len <= HN);
  for (k = 0; k < HN; ++k) key[k] = ND_UCHAR();
  for (k = 0; k < len; ++k) h = cdbmake_hashadd(h, (unsigned int)key[k]);
  V_ASSERT(cdb_hash(key, len) == h, "C11: the reader hashes a key exactly as the compiler did (same recurrence, same start value)");
}
#endif

