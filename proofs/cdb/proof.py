PROOFS = [
  dict(name="cdb_pack", properties=["C11"], entry="h_pack", defines=["P_PACK"], mode="plain", units=["harness.c", "repo:cdb_unpack.c", "repo:cdbmake_pack.c"], covers=False, min_tagged=1, timeout=120,
       title="cdb_unpack(cdbmake_pack(x)) == x for all 2^32 x (loop-free, full domain)", functions=["cdb_unpack.c:cdb_unpack", "cdbmake_pack.c:cdbmake_pack"],
       canaries=[dict(name="byte-order-swapped", file="cdbmake_pack.c", literal=True, pattern="buf[0] = num & 255; num >>= 8;", repl="buf[0] = num & 127; num >>= 8;", expect=r"C11")]),
  dict(name="cdb_hash", properties=["C11"], entry="h_hash", defines=["P_HASH"], mode="plain", units=["harness.c", "repo:cdb_hash.c", "repo:cdbmake_hash.c"], unwind=14, covers=False, min_tagged=1, timeout=300,
       title="cdb_hash(key) == fold of cdbmake_hashadd from CDBMAKE_HASHSTART for every key of <= 12 bytes", functions=["cdb_hash.c:cdb_hash", "cdbmake_hash.c:cdbmake_hashadd"],
       bounded="keys of at most 12 bytes (the recurrence is the same for every length; induction by hand)",
       canaries=[dict(name="different-start-value", file="cdb_hash.c", literal=True, pattern="h = 5381;", repl="h = 5380;", expect=r"C11")]),
]
