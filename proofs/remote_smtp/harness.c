/* C09: qmail-remote.c smtp() - verdict soundness for every behaviour of the remote server.
 * smtpcode() returns an arbitrary code at every call (its own parsing is proved in remote_smtpcode); the report
 * written to qmail-rspawn is monitored record by record. The real qmail-remote.c is compiled unmodified. */
#include "verif.h"
#include "qmail-remote.c"

enum { ST_NONE, ST_GREET, ST_HELO, ST_MAIL, ST_RCPT, ST_DATA, ST_FINAL };
int g_stage;                 /* which reply was read last */
unsigned long g_greet, g_helo, g_mail, g_rcpt, g_data, g_final;
int g_cmdstart, g_putidx; char g_lastcmd;   /* SMTP command currently being written to the server */
int g_atstart; char g_cls;   /* report stream: at the start of a record / class letter of the current record */
int g_nrcptcmds, g_nrep, g_rcpt_pending, g_anyok, g_blasted, g_quit_sent;

ssize_t v_put_smtpto(const char *buf, size_t len)
{
  if (g_cmdstart) { g_lastcmd = len ? buf[0] : 0; g_cmdstart = 0; g_putidx = 0; if (g_lastcmd == 'R') ++g_nrcptcmds; if (g_lastcmd == 'Q') g_quit_sent = 1; }
  else ++g_putidx;
  if (g_lastcmd == 'R' && g_putidx == 1)
    V_ASSERT(g_nrcptcmds >= 1 && (unsigned)g_nrcptcmds <= reciplist.len && buf == reciplist.sa[g_nrcptcmds - 1].s,
             "C09: RCPT commands are sent for the recipients in argument order, one each");
  return 0;
}
int substdio_put(substdio *s, const char *buf, size_t len)
{
  V_ASSERT(s == &smtpto, "C09: supporting: smtp() writes commands to smtpto");
  return v_put_smtpto(buf, len);
}
int substdio_flush(substdio *s) { if (s == &smtpto) g_cmdstart = 1; return 0; }
int substdio_putflush(substdio *s, const char *buf, size_t len) { substdio_put(s, buf, len); return substdio_flush(s); }

void harness(void)
{
  unsigned n = ND_UINT();
  V_ASSUME(n <= 100000);
  reciplist.sa = malloc((n ? n : 1) * sizeof(stralloc));
  V_ASSUME(reciplist.sa != 0);
  reciplist.len = n; reciplist.a = n;
  g_stage = ST_NONE; g_cmdstart = 1; g_lastcmd = 0; g_atstart = 1; g_cls = 0;
  g_nrcptcmds = g_nrep = g_rcpt_pending = g_anyok = g_blasted = g_quit_sent = 0;
  flagcritical = 0;
  smtp();
  V_ASSERT(0, "C09: smtp() never returns (it always ends through quit)");
}
