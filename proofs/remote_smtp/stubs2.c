/* bodies for functions of qmail-remote.c that this proof replaces */
#include "verif.h"
enum { ST_NONE, ST_GREET, ST_HELO, ST_MAIL, ST_RCPT, ST_DATA, ST_FINAL };
extern int g_stage, g_cmdstart, g_atstart, g_nrcptcmds, g_nrep, g_rcpt_pending, g_anyok, g_blasted, g_quit_sent, flagcritical;
extern unsigned long g_greet, g_helo, g_mail, g_rcpt, g_data, g_final;
extern char g_lastcmd, g_cls;

unsigned long smtpcode(void)
{
  unsigned long code = ND_ULONG();
  V_ASSERT(g_cmdstart, "C09: supporting: every command is flushed before the reply is awaited");
  V_ASSERT(!g_rcpt_pending, "C09: every RCPT reply is reported before the next reply is read");
  if (g_stage == ST_NONE) { g_stage = ST_GREET; g_greet = code; }
  else if (g_lastcmd == 'H' && g_stage == ST_GREET) {
    V_ASSERT(g_greet == 220, "C09: HELO is sent only after a 220 greeting");
    g_stage = ST_HELO; g_helo = code; }
  else if (g_lastcmd == 'M' && g_stage == ST_HELO) {
    V_ASSERT(g_helo == 250, "C09: MAIL is sent only after HELO was answered 250");
    g_stage = ST_MAIL; g_mail = code; }
  else if (g_lastcmd == 'R' && (g_stage == ST_MAIL || g_stage == ST_RCPT)) {
    V_ASSERT(g_mail < 400, "C09: RCPT is sent only after the sender was accepted");
    g_stage = ST_RCPT; g_rcpt = code; g_rcpt_pending = 1;
    if (code < 400) g_anyok = 1; }
  else if (g_lastcmd == 'D' && (g_stage == ST_MAIL || g_stage == ST_RCPT) && !g_blasted) {
    V_ASSERT(g_mail < 400 && g_anyok, "C09: DATA is sent only after the sender and at least one recipient were accepted");
    g_stage = ST_DATA; g_data = code; }
  else if (g_blasted && g_stage == ST_DATA) {
    V_ASSERT(flagcritical == 1, "C09: while the reply to the final dot is awaited the delivery is flagged critical (a lost connection is reported as a possible duplicate)");
    g_stage = ST_FINAL; g_final = code; }
  else V_ASSERT(0, "C09: replies are read in the order greeting, HELO, MAIL, RCPT*, DATA, final dot");
  return code;
}

void blast(void)
{
  V_ASSERT(g_stage == ST_DATA && g_data < 400, "C09: the message is transmitted only after DATA was accepted");
  V_ASSERT(!g_blasted, "C09: the message is transmitted once");
  g_blasted = 1;
  flagcritical = 1;   /* postcondition of blast(), proved in remote_blast */
}

void out(char *s) { if (g_atstart && s[0]) { g_cls = s[0]; g_atstart = 0; } }
void outhost(void) { g_atstart = 0; }
void outsmtptext(void) { }

static char cls(unsigned long code) { return code >= 500 ? 'h' : code >= 400 ? 's' : 'r'; }

void zero(void)
{
  V_ASSERT(!g_atstart, "C09: supporting: no empty record in the report");
  V_ASSERT(g_rcpt_pending, "C09: exactly one per-recipient record per RCPT reply");
  V_ASSERT(g_cls == cls(g_rcpt), "C09: a recipient is reported as accepted (r) only if the server answered its RCPT with < 400; 4xx -> s, 5xx -> h");
  g_rcpt_pending = 0; ++g_nrep;
  g_atstart = 1;
  V_COVER(g_cls == 'r'); V_COVER(g_cls == 'h'); V_COVER(g_cls == 's');
}

void zerodie(void)
{
  char v = g_cls;
  V_ASSERT(!g_atstart && !g_rcpt_pending, "C09: the final verdict record follows the per-recipient records");
  V_ASSERT(g_nrep == g_nrcptcmds, "C09: one report per recipient, in order");
  V_ASSERT(v == 'K' || v == 'Z' || v == 'D', "C09: the verdict is K, Z or D");
  if (v == 'K')
    V_ASSERT(g_stage == ST_FINAL && g_blasted && g_final < 400 && g_data < 400 && g_anyok && g_mail < 400 && g_helo == 250 && g_greet == 220,
             "C09: success only if the server accepted a recipient, accepted DATA and accepted the message after the final dot");
  switch (g_stage) {
    case ST_GREET: V_ASSERT(g_greet != 220 && v == 'Z', "C09: an unexpected greeting yields a temporary failure"); break;
    case ST_HELO:  V_ASSERT(g_helo != 250 && v == 'Z', "C09: an unexpected HELO reply yields a temporary failure"); break;
    case ST_MAIL:  if (g_mail >= 400) V_ASSERT(v == (g_mail >= 500 ? 'D' : 'Z'), "C09: 5xx to MAIL is permanent, 4xx temporary");
                   else V_ASSERT(g_nrcptcmds == 0 && v == 'D', "C09: giving up is only possible when no recipient was accepted"); break;
    case ST_RCPT:  V_ASSERT(!g_anyok && v == 'D', "C09: giving up is only possible when no recipient was accepted"); break;
    case ST_DATA:  V_ASSERT(g_data >= 400 && v == (g_data >= 500 ? 'D' : 'Z'), "C09: 5xx to DATA is permanent, 4xx temporary"); break;
    case ST_FINAL: V_ASSERT(v == (g_final >= 500 ? 'D' : g_final >= 400 ? 'Z' : 'K'), "C09: the reply after the final dot decides: 5xx permanent, 4xx temporary, otherwise delivered");
                   V_ASSERT(flagcritical == 0, "C09: supporting: the critical flag is cleared once the reply was read"); break;
    default: V_ASSERT(0, "C09: a verdict is given only after a reply was read");
  }
  V_ASSERT(g_quit_sent, "C09: supporting: QUIT is sent before the verdict is written");
  V_COVER(v == 'K'); V_COVER(v == 'D' && g_stage == ST_RCPT); V_COVER(v == 'Z' && g_stage == ST_FINAL);
  V_ASSUME(0);
}
