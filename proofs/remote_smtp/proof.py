GH = ("g_stage, g_greet, g_helo, g_mail, g_rcpt, g_data, g_final, g_cmdstart, g_putidx, g_lastcmd, g_atstart, g_cls, "
      "g_nrcptcmds, g_nrep, g_rcpt_pending, g_anyok, g_blasted, g_quit_sent, flagcritical")
PROOF = dict(
    properties=["C09"],
    title="qmail-remote.c smtp()/quit(): verdict K/Z/D and per-recipient r/s/h records for every sequence of reply codes, any number of recipients",
    functions=["qmail-remote.c:smtp", "qmail-remote.c:quit"],
    units=["harness.c", "stubs2.c"],
    remove_bodies={"harness.c": ["smtpcode", "blast", "out", "outhost", "outsmtptext", "zero", "zerodie"]},
    mode="dfcc",
    unwindset=["strlen.0:16"],
    loops=[dict(function="smtp", head="for (i = 0;i < reciplist.len;++i)",
                invariants="0 <= i && (unsigned)i <= reciplist.len && g_nrep == i && g_nrcptcmds == i && !g_rcpt_pending"
                           " && (flagbother == 0 || flagbother == 1) && flagbother == g_anyok && g_greet == 220 && g_helo == 250 && g_mail < 400"
                           " && g_stage == (i == 0 ? 3 : 4) && g_atstart && g_cmdstart && !g_blasted && !g_quit_sent && flagcritical == 0",
                assigns="i, code, flagbother, " + GH,
                symbols={"i": "smtp::1::i", "code": "smtp::1::code", "flagbother": "smtp::1::flagbother"})],
    min_tagged=15, timeout=300,
    replaced=["smtpcode (any code; parsing proved in remote_smtpcode)", "blast (postcondition flagcritical = 1 proved in remote_blast)",
              "out/zero/zerodie/outhost/outsmtptext (report-stream monitor)", "substdio_put/flush on smtpto"],
    assumptions=["C09: at most 100000 recipients per qmail-remote invocation (argv-bounded)"],
    canaries=[
        dict(name="final-500-not-permanent", file="qmail-remote.c", literal=True, pattern='if (code >= 500) quit("D"," failed after I sent the message");', repl='if (code > 500) quit("D"," failed after I sent the message");', expect=r"C09: the reply after the final dot"),
        dict(name="critical-flag-cleared-early", file="qmail-remote.c", literal=True, pattern="  blast();\n  code = smtpcode();\n  flagcritical = 0;", repl="  blast();\n  flagcritical = 0;\n  code = smtpcode();", expect=r"C09: while the reply to the final dot"),
        dict(name="giving-up-test-removed", file="qmail-remote.c", literal=True, pattern='  if (!flagbother) quit("DGiving up on ","");\n', repl='', expect=r"C09: DATA is sent only"),
        dict(name="4xx-rcpt-reported-accepted", file="qmail-remote.c", literal=True, pattern='      out("s"); outhost(); out(" does not like recipient.\\n");', repl='      out("r"); outhost(); out(" does not like recipient.\\n");', expect=r"C09: a recipient is reported as accepted"),
        dict(name="helo-reply-ignored", file="qmail-remote.c", literal=True, pattern='  if (smtpcode() != 250) quit("ZConnected to "," but my name was rejected");', repl='  smtpcode();', expect=r"C09: MAIL is sent only"),
    ],
)
