/* C10: qmail-send.c senderadd() - VERP expansion of a per-recipient sender, for sender and recipient of ANY length.
 * strlen / byte_rchr / str_rchr are used through their contracts (last occurrence), the stralloc appends are recorded as pieces. */
#include "verif.h"
#include <stdlib.h>
#include "qmail-send.c"
char *g_s, *g_r; unsigned g_sl, g_rl, g_j, g_k; int g_j_set, g_k_set; stralloc g_out; int g_np; const char *g_pp[8]; unsigned g_pl[8]; int g_pk[8];
int stralloc_catb(stralloc *sa, char *s, unsigned int n) { V_ASSERT(sa == &g_out && g_np < 8, "C10: supporting"); g_pp[g_np] = s; g_pl[g_np] = n; g_pk[g_np] = 1; ++g_np; return 1; }
int stralloc_cats(stralloc *sa, char *s) { V_ASSERT(sa == &g_out && g_np < 8, "C10: supporting"); g_pp[g_np] = s; g_pl[g_np] = 0; g_pk[g_np] = 2; ++g_np; return 1; }
size_t strlen(const char *s) { V_ASSERT(s == g_s, "C10: supporting"); return g_sl; }
/* contract of byte_rchr (proof lib_byte_rchr): index of the LAST c in s[0..n), n if there is none */
unsigned int byte_rchr(char *s, unsigned int n, int c) { unsigned j = ND_UINT(); V_ASSERT(s == g_s && g_sl >= 4 && n == g_sl - 4 && c == '@', "C10: the sender's host is what follows the last @ before the -@[] marker"); V_ASSUME(j <= n && (j == n || g_s[j] == '@')); g_j = j; g_j_set = 1; return j; }
/* contract of str_rchr: index of the LAST c, or of the terminating NUL */
unsigned int str_rchr(char *s, int c) { unsigned k = ND_UINT(); V_ASSERT(s == g_r && c == '@', "C10: the recipient is split at its last @"); V_ASSUME(k <= g_rl && (k == g_rl || g_r[k] == '@')); g_k = k; g_k_set = 1; return k; }
void nomem(void) { V_ASSUME(0); }
void harness(void)
{
  int verp;
  g_sl = ND_UINT(); g_rl = ND_UINT(); V_ASSUME(g_sl <= 0x3fffffff && g_rl <= 0x3fffffff);
  g_s = malloc((size_t)g_sl + 1); g_r = malloc((size_t)g_rl + 1); V_ASSUME(g_s && g_r); g_s[g_sl] = 0; g_r[g_rl] = 0;
  if (g_sl >= 4) V_ASSUME(g_s[g_sl - 4] != 0 && g_s[g_sl - 3] != 0 && g_s[g_sl - 2] != 0 && g_s[g_sl - 1] != 0);   /* a C string of length g_sl */
  g_np = 0; g_j_set = g_k_set = 0;
  verp = g_sl >= 4 && g_s[g_sl - 4] == '-' && g_s[g_sl - 3] == '@' && g_s[g_sl - 2] == '[' && g_s[g_sl - 1] == ']';
  senderadd(&g_out, g_s, g_r);
  if (verp) V_ASSERT(g_j_set && g_k_set, "C10: for a sender ending in -@[] both split points are determined");
  if (verp && g_j < g_sl - 4 && g_k < g_rl) {
    /* owner-@host-@[]  ->  owner- recipbox = reciphost @ host */
    V_ASSERT(g_np == 6, "C10: a per-recipient (VERP) sender is expanded into six pieces");
    V_ASSERT(g_pp[0] == g_s && g_pl[0] == g_j && g_pk[0] == 1, "C10: VERP: first the sender up to its last @ before the marker");
    V_ASSERT(g_pp[1] == g_r && g_pl[1] == g_k && g_pk[1] == 1, "C10: VERP: then the recipient's mailbox");
    V_ASSERT(g_pk[2] == 2 && g_pp[2][0] == '=' && !g_pp[2][1], "C10: VERP: then =");
    V_ASSERT(g_pk[3] == 2 && g_pp[3] == g_r + g_k + 1, "C10: VERP: then the recipient's host");
    V_ASSERT(g_pk[4] == 2 && g_pp[4][0] == '@' && !g_pp[4][1], "C10: VERP: then @");
    V_ASSERT(g_pk[5] == 1 && g_pp[5] == g_s + g_j + 1 && g_pl[5] == g_sl - 5 - g_j, "C10: VERP: then the sender's host without the -@[] marker");
  } else
    V_ASSERT(g_np == 1 && g_pk[0] == 2 && g_pp[0] == g_s, "C10: every other sender (no marker, no @ before the marker, recipient without @) is passed on unchanged");
  V_COVER(verp && g_j < g_sl - 4 && g_k < g_rl && g_sl > 100); V_COVER(verp && g_k == g_rl); V_COVER(verp && g_j == g_sl - 4);
}
