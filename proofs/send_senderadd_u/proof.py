PROOF = dict(
    name="send_senderadd_u", properties=["C10"], units=["harness.c"], mode="dfcc", timeout=300, min_tagged=8, unwind=7,
    unwindset=["strcmp.0:7"] + [dict(function="senderadd", head="while (!stralloc_cat", nth=n, bound=2) for n in range(7)],
    title="qmail-send.c senderadd(): VERP expansion owner-@host-@[] -> owner-box=rhost@host exactly when the sender ends in -@[] with an @ before it and the recipient has an @ - sender and recipient of any length",
    functions=["qmail-send.c:senderadd"],
    replaced=["strlen, byte_rchr, str_rchr (contracts)", "stralloc_catb/cats (recording: the pieces appended)"],
    canaries=[dict(name="verp-host-keeps-marker", file="qmail-send.c", literal=True, pattern="stralloc_catb(sa,sender + j + 1,i - 5 - j)", repl="stralloc_catb(sa,sender + j + 1,i - 4 - j)", expect=r"C10: VERP: then the sender's host"),
              dict(name="mailbox-and-host-swapped", file="qmail-send.c", literal=True, pattern="       while (!stralloc_catb(sa,recip,k)) nomem();\n       while (!stralloc_cats(sa,\"=\")) nomem();\n       while (!stralloc_cats(sa,recip + k + 1)) nomem();", repl="       while (!stralloc_cats(sa,recip + k + 1)) nomem();\n       while (!stralloc_cats(sa,\"=\")) nomem();\n       while (!stralloc_catb(sa,recip,k)) nomem();", expect=r"C10: VERP"),
              dict(name="marker-test-off-by-one", file="qmail-send.c", literal=True, pattern="     if (recip[k] && (j + 5 <= i))", repl="     if (recip[k] && (j + 4 <= i))", expect=r".")],
)
