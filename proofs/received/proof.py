PROOFS = [
  dict(name="received_safeput", tier="thorough", properties=["C07"], entry="h_safeput", units=["harness.c"], mode="plain", unwind=12, timeout=120, min_tagged=2,
       title="received.c safeput()/issafe(): every byte of a peer-supplied string written into the Received field is safe, for every string of <= 10 bytes",
       functions=["received.c:safeput", "received.c:issafe"], bounded="peer strings of at most 10 bytes, every byte value (the check is per byte)",
       canaries=[dict(name="backslash-is-safe", file="received.c", literal=True, pattern="  if (ch == '[') return 1;", repl="  if (ch == '[') return 1;\n  if (ch == '\\\\') return 1;", expect=r"C07: every byte of a peer-supplied"),
                 dict(name="paren-is-safe", file="received.c", literal=True, pattern="  if (ch == '[') return 1;", repl="  if (ch == '(') return 1;\n  if (ch == '[') return 1;", expect=r"C07: every byte of a peer-supplied")]),
]
