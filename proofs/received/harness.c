/* C07: received.c - the Received field written by the network daemons names the peer using only safe characters. */
#include "verif.h"
#include "received.c"

#ifndef NS
#define NS 10
#endif
struct qmail g_qq; int g_nput; int g_stage; int g_in_safeput;
/* oracle from the property: inside a header field comment/phrase the peer's strings must not contain RFC 822 structure
 * characters ( ) < > , ; " \ , white space, control characters or 8-bit bytes */
static int dangerous(char c) { unsigned char u = (unsigned char)c; return u <= 32 || u >= 127 || c == '(' || c == ')' || c == '<' || c == '>' || c == ',' || c == ';' || c == '"' || c == '\\'; }
void qmail_put(struct qmail *q, char *s, size_t n)
{
  V_ASSERT(q == &g_qq, "C07: supporting");
  if (g_in_safeput) { V_ASSERT((unsigned)n == 1 && !dangerous(s[0]), "C07: every byte of a peer-supplied string (host name, HELO argument, ident, IP) written into the Received field is a safe character"); ++g_nput; }
}
size_t strlen(const char *s) { return 3; }
time_t time(time_t *t) { return 0; }
void datetime_tai(struct datetime *d, datetime_sec t) {}
unsigned int date822fmt(char *s, struct datetime *d) { return 10; }

void h_safeput(void)
{
  static char s[NS + 1]; int k, n = 0;
  for (k = 0; k < NS; ++k) s[k] = ND_CHAR();
  s[NS] = 0; g_nput = 0; g_in_safeput = 1;
  safeput(&g_qq, s);
  for (k = 0; k < NS && s[k]; ++k) ++n;
  V_ASSERT(g_nput == n, "C07: supporting: one byte written per byte of the string (unsafe bytes become ?)");
  V_COVER(n == NS);
}
