def P(name, entry, define, title, fns, **kw):
    d = dict(name=name, properties=["C19"], entry=entry, defines=[define], mode="plain", units=["harness.c"], title=title, functions=fns, timeout=300, unwindset=None)
    d.update(kw); d.pop("unwindset") if d.get("unwindset") is None else None
    return d
PROOFS = [
  P("pop3_msgno", "h_msgno", "P_MSGNO", "qmail-pop3d.c msgno(): number n -> index n-1; zero, out-of-range, non-numeric and deleted refused without effect", ["qmail-pop3d.c:msgno"], min_tagged=4, unwind=4, cbmc_unwindset=["strlen.0:48"],
    canaries=[dict(name="no-decrement", file="qmail-pop3d.c", literal=True, pattern="  --u;\n  if (u >= numm", repl="  if (u >= numm", expect=r"."),
              dict(name="deleted-accepted", file="qmail-pop3d.c", literal=True, pattern="  if (m[u].flagdeleted) { err_deleted(); return -1; }\n", repl="", expect=r"C19: an already deleted")]),
  P("pop3_dele", "h_dele", "P_MSGNO", "qmail-pop3d.c pop3_dele(): marks exactly message n; a refused DELE has no effect", ["qmail-pop3d.c:pop3_dele", "qmail-pop3d.c:msgno"], min_tagged=3, unwind=4, cbmc_unwindset=["strlen.0:48"],
    canaries=[dict(name="dele-marks-neighbour", file="qmail-pop3d.c", literal=True, pattern="  m[i].flagdeleted = 1;\n  if (i + 1 > last)", repl="  m[i].flagdeleted = 1; if (i) m[i - 1].flagdeleted = 1;\n  if (i + 1 > last)", expect=r"C19: DELE n marks no other")]),
  P("pop3_top", "h_top", "P_MSGNO", "qmail-pop3d.c pop3_top() (RETR and TOP): opens exactly the file of message n, never a deleted one", ["qmail-pop3d.c:pop3_top", "qmail-pop3d.c:msgno"], min_tagged=2, unwind=4, cbmc_unwindset=["strlen.0:48"],
    units=["harness.c", "stubs3.c", "repo:substdio.c"], remove_bodies={"harness.c": ["blast"]},
    canaries=[dict(name="read-buffer-not-reset", file="qmail-pop3d.c", literal=True, pattern="  substdio_fdbuf(&ssmsg,read,fd,ssmsgbuf,sizeof(ssmsgbuf));", repl="  ssmsg.fd = fd; ssmsg.x = ssmsgbuf; ssmsg.n = sizeof(ssmsgbuf); ssmsg.op = read;", expect=r"C19: every RETR/TOP starts with an empty read buffer")]),
  P("pop3_rset", "h_rset", "P_RSET", "qmail-pop3d.c pop3_rset(): every mark cleared (any number of messages)", ["qmail-pop3d.c:pop3_rset"], mode="dfcc", min_tagged=2,
    unwindset=["strlen.0:8"],
    loops=[dict(function="pop3_rset", head="for (i = 0;i <", invariants="i <= numm && (g_K < i ==> m[g_K].flagdeleted == 0)",
                assigns="i, __CPROVER_object_whole(m)", decreases="numm - i", symbols=["i"])],
    canaries=[dict(name="rset-stops-at-last", file="qmail-pop3d.c", literal=True, pattern="  for (i = 0;i < numm;++i) m[i].flagdeleted = 0;", repl="  for (i = 0;i < last;++i) m[i].flagdeleted = 0;", expect=r".")]),
  P("pop3_quit", "h_quit", "P_QUIT", "qmail-pop3d.c pop3_quit(): unlink exactly the marked messages, rename only unmarked new/ ones, for <= 6 messages", ["qmail-pop3d.c:pop3_quit"],
    units=["harness.c", "stubs2.c", "repo:str_start.c"], remove_bodies={"harness.c": ["die", "die_nomem"]}, unwind=8, cbmc_unwindset=["strlen.0:48"], min_tagged=4,
    bounded="at most 6 messages (identifying which message a path belongs to needs pairwise-distinct name pointers)",
    canaries=[dict(name="quit-unlinks-unmarked", file="qmail-pop3d.c", literal=True, pattern="    if (m[i].flagdeleted) {\n      if (unlink(m[i].fn) == -1) err_nounlink();", repl="    if (!m[i].flagdeleted) {\n      if (unlink(m[i].fn) == -1) err_nounlink();", expect=r"C19")]),
  P("pop3_blast", "h_blast", "P_BLAST", "qmail-pop3d.c blast(): every line once and unchanged with CR LF, dot-stuffed, TOP limit on body lines, blank line + lone dot at the end (any number and length of lines)", ["qmail-pop3d.c:blast"],
    mode="dfcc", units=["harness.c", "stubs2.c"], remove_bodies={"harness.c": ["die"]}, min_tagged=8,
    loops=[dict(function="blast", head="for (;;)",
                invariants="!g_pending && !g_eof && !g_final && line.s == lbuf && (inheaders == 0 || inheaders == 1) && inheaders == !g_hdr_done"
                           " && (g_limit0 == 0 ? limit == 0 : (limit >= 1 && limit == g_limit0 - g_bodylines && g_bodylines < g_limit0))",
                assigns="match, inheaders, limit, line, __CPROVER_object_whole(lbuf), g_len, g_match, g_pending, g_stage, g_eof, g_final, g_hdr_done, g_bodylines, __CPROVER_errno",
                symbols=["match", "inheaders", "limit"])],
    canaries=[dict(name="no-dot-stuffing", file="qmail-pop3d.c", literal=True, pattern="      if (line.s[0] == '.')\n        put(\".\",1);\n", repl="", expect=r"C19: a dot is prepended"),
              dict(name="last-unterminated-line-dropped", file="qmail-pop3d.c", literal=True, pattern="    if (!match && !line.len) break;", repl="    if (!match) break;", expect=r"C19"),
              dict(name="top-counts-header-lines", file="qmail-pop3d.c", literal=True, pattern="    if (limit) if (!inheaders) if (!--limit) break;", repl="    if (limit) if (!--limit) break;", expect=r"C19")]),
  P("pop3_main", "h_main", "P_MAIN", "qmail-pop3d.c main(): refuses to run as root before anything else", ["qmail-pop3d.c:main"], units=["harness.c", "stubs2.c"],
    remove_bodies={"harness.c": ["die", "getlist"]}, unwind=4, cbmc_unwindset=["strlen.0:64"], min_tagged=1,
    canaries=[dict(name="root-check-after-scan", file="qmail-pop3d.c", literal=True, pattern="  if (!getuid()) die_root();\n  if (!argv[1]) die_nomaildir();\n  if (chdir(argv[1]) == -1) die_nomaildir();\n \n  getlist();\n", repl="  if (!argv[1]) die_nomaildir();\n  if (chdir(argv[1]) == -1) die_nomaildir();\n \n  getlist();\n  if (!getuid()) die_root();\n", expect=r"C19")]),
]
