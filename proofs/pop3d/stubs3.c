#include "verif.h"
#include "substdio.h"
extern int g_fd_open, g_blasted, g_closed_fd; extern substdio ssmsg; extern char ssmsgbuf[1024]; extern unsigned long g_limit_seen;
/* blast() has its own proof (pop3_blast); here: what pop3_top hands to it */
void blast(substdio *ss, unsigned long limit)
{
  V_ASSERT(ss == &ssmsg && g_fd_open && !g_blasted, "C19: RETR/TOP transmit the file just opened, once");
  V_ASSERT(ssmsg.fd == 7 && ssmsg.x == ssmsgbuf && ssmsg.n == (int)sizeof ssmsgbuf, "C19: the message is read from the descriptor just opened, through the message buffer");
  V_ASSERT(ssmsg.p == 0, "C19: every RETR/TOP starts with an empty read buffer: no bytes left over from an earlier, truncated TOP are sent as part of this message");
  g_blasted = 1; g_limit_seen = limit;
}
int close(int fd) { V_ASSERT(fd == 7 && g_blasted && !g_closed_fd, "C19: supporting: the message file is closed after transmission"); g_closed_fd = 1; return 0; }
