#include "verif.h"
#include "substdio.h"
void blast(substdio *ss, unsigned long limit) { }
