/* C19: qmail-pop3d.c - message numbering, deletion marks, RETR/TOP transmission.  Real file compiled unmodified. */
#include "verif.h"
#include <errno.h>
#include "qmail-pop3d.c"

int g_errs, g_oks, g_unlinks, g_renames, g_in_quit, g_exit = -1;
#ifdef P_MAIN
void verif_exit_check(void);
void _exit(int e) { g_exit = e; verif_exit_check(); V_ASSUME(0); }
#else
void _exit(int e) { g_exit = e; V_ASSUME(0); }
#endif
#ifndef P_BLAST
int substdio_put(substdio *s, const char *b, size_t n) { if (s == &ssout && n >= 3 && b[0] == '-' && b[1] == 'E' && b[2] == 'R') ++g_errs; if (s == &ssout && n >= 3 && b[0] == '+' && b[1] == 'O' && b[2] == 'K') ++g_oks; return 0; }
int substdio_flush(substdio *s) { return 0; }
#endif
int substdio_putflush(substdio *s, const char *b, size_t n) { return 0; }
#ifndef P_QUIT
int unlink(const char *p) { V_ASSERT(0, "C19: messages are removed only by QUIT"); return 0; }
int rename(const char *a, const char *b) { V_ASSERT(0, "C19: messages are renamed only by QUIT"); return 0; }
#endif

static void mk_table(unsigned maxn)
{
  numm = ND_UINT(); V_ASSUME(numm <= maxn);
  m = malloc((numm ? numm : 1) * sizeof(struct message)); V_ASSUME(m != 0);
  last = ND_INT(); V_ASSUME(0 <= last && (unsigned)last <= numm);
  g_errs = g_oks = g_unlinks = g_renames = g_in_quit = 0;
}

/* ---- msgno / DELE / TOP-RETR open ---- */
#ifdef P_MSGNO
static char arg[8]; unsigned long g_u; unsigned g_nd;
unsigned int scan_ulong(char *s, unsigned long *u) { if (s == arg) { *u = g_u; return g_nd; } *u = ND_ULONG(); return ND_UINT() % 8; }   /* contract: decimal value of the digit prefix, its length */
int g_opened_idx = -1; char *g_opened_fn;
int g_fd_open, g_blasted, g_closed_fd; unsigned long g_limit_seen;
int open_read(char *fn) { g_opened_fn = fn; g_opened_idx = 1; if (ND_BOOL()) return -1; g_fd_open = 1; return 7; }
void h_msgno(void)
{
  int r; unsigned K = ND_UINT();
  mk_table(100000);
  g_u = ND_ULONG(); g_nd = ND_UINT() % 8;
  V_ASSUME(K < numm);
  { int del0 = m[K].flagdeleted;
  r = msgno(arg);
  V_ASSERT(m[K].flagdeleted == del0, "C19: looking up a message number changes nothing"); }
  if (g_nd == 0 || g_u == 0 || g_u > numm) { V_ASSERT(r == -1 && g_errs == 1, "C19: non-numeric, zero and out-of-range message numbers are refused"); }
  else if (m[g_u - 1].flagdeleted) V_ASSERT(r == -1 && g_errs == 1, "C19: an already deleted message number is refused");
  else V_ASSERT(r >= 0 && (unsigned long)r == g_u - 1 && g_errs == 0, "C19: message number n denotes the n-th message of the start-up list for the whole session");
  V_COVER(r >= 0); V_COVER(r == -1 && g_nd && g_u && g_u <= numm);
}
void h_dele(void)
{
  unsigned K = ND_UINT(); int del0, last0;
  mk_table(100000);
  g_u = ND_ULONG(); g_nd = ND_UINT() % 8;
  V_ASSUME(K < numm); del0 = m[K].flagdeleted; last0 = last;
  pop3_dele(arg);
  if (g_oks) {
    V_ASSERT(g_nd && g_u >= 1 && g_u <= numm && m[g_u - 1].flagdeleted == 1, "C19: DELE n marks message n");
    V_ASSERT(K == g_u - 1 || m[K].flagdeleted == del0, "C19: DELE n marks no other message");
  } else V_ASSERT(m[K].flagdeleted == del0 && g_errs == 1, "C19: a refused DELE has no effect");
  V_COVER(g_oks);
}
void h_top(void)
{
  mk_table(100000);
  g_u = ND_ULONG(); g_nd = ND_UINT() % 8; g_opened_idx = -1; g_fd_open = g_blasted = g_closed_fd = 0;
  ssmsg.p = ND_INT(); V_ASSUME(ssmsg.p >= 0 && ssmsg.p <= (int)sizeof ssmsgbuf); ssmsg.fd = ND_INT();   /* whatever an earlier RETR/TOP left behind: unread bytes, an old descriptor */
  pop3_top(arg);
  V_ASSERT(g_fd_open == g_blasted && g_blasted == g_closed_fd, "C19: an opened message is transmitted and closed");
  if (g_opened_idx >= 0) V_ASSERT(g_nd && g_u >= 1 && g_u <= numm && g_opened_fn == m[g_u - 1].fn && !m[g_u - 1].flagdeleted, "C19: RETR/TOP n opens exactly the file of message n, and never a deleted one");
  else V_ASSERT(g_errs == 1, "C19: a refused RETR/TOP sends an error");
  V_COVER(g_opened_idx >= 0); V_COVER(g_blasted);
}
#endif

/* ---- RSET ---- */
#ifdef P_RSET
unsigned g_K;
void h_rset(void)
{
  mk_table(100000);
  g_K = ND_UINT(); V_ASSUME(g_K < numm);
  pop3_rset("");
  V_ASSERT(m[g_K].flagdeleted == 0, "C19: RSET unmarks every message");
  V_ASSERT(g_oks == 1, "C19: supporting: RSET answers +OK");
  V_COVER(numm > 3);
}
#endif

/* ---- QUIT (bounded: at most MQ messages) ---- */
#ifdef P_QUIT
#define MQ 6
static struct message mq[MQ]; static char names[MQ][8];
int g_unl[MQ], g_ren[MQ];
int unlink(const char *p) { unsigned k; for (k = 0; k < MQ; ++k) if (p == names[k]) { V_ASSERT(k < numm && m[k].flagdeleted, "C19: only messages marked with DELE are removed"); ++g_unl[k]; } V_ASSERT(g_in_quit, "C19: messages are removed only at QUIT"); return ND_BOOL() ? -1 : 0; }
int rename(const char *a, const char *b) { unsigned k; for (k = 0; k < MQ; ++k) if (a == names[k]) { V_ASSERT(k < numm && !m[k].flagdeleted && names[k][0] == 'n', "C19: only unmarked new/ messages are moved to cur/"); ++g_ren[k]; } return 0; }
int stralloc_copys(stralloc *sa, char *s) { return ND_BOOL(); } int stralloc_cats(stralloc *sa, char *s) { return ND_BOOL(); } int stralloc_append(stralloc *sa, char *c) { return ND_BOOL(); }
void h_quit(void)
{
  unsigned k;
  numm = ND_UINT(); V_ASSUME(numm <= MQ); m = mq; g_in_quit = 1; g_oks = g_errs = 0;
  for (k = 0; k < MQ; ++k) { mq[k].flagdeleted = ND_BOOL(); mq[k].fn = names[k]; names[k][0] = ND_BOOL() ? 'n' : 'c'; names[k][1] = names[k][0] == 'n' ? 'e' : 'u'; names[k][2] = names[k][0] == 'n' ? 'w' : 'r'; names[k][3] = '/'; names[k][4] = 'x'; names[k][5] = 0; g_unl[k] = g_ren[k] = 0; }
  line.s = 0;
  pop3_quit("");
  V_ASSERT(0, "C19: supporting: QUIT ends the session");
}
void die(void);
void verif_die_check(void)
{
  unsigned k;
  for (k = 0; k < MQ; ++k) {
    V_ASSERT(g_unl[k] == (k < numm && mq[k].flagdeleted ? 1 : 0), "C19: at QUIT every message marked with DELE is removed, exactly once, and no other");
    V_ASSERT(g_ren[k] <= 1, "C19: supporting: at most one rename per message");
  }
  V_COVER(numm == MQ);
}
#endif

/* ---- blast(): transmission of a stored message ---- */
#ifdef P_BLAST
static char lbuf[64]; unsigned g_len; int g_match, g_pending, g_stage, g_eof, g_final, g_hdr_done, g_flushed;
unsigned long g_limit0, g_bodylines;
int getln(substdio *ss, stralloc *sa, int *match, int sep)
{
  V_ASSERT(sep == '\n' && sa == &line, "C19: supporting: the file is read line by line");
  V_ASSERT(!g_pending && !g_eof && !g_final, "C19: every stored line is sent before the next is read");
  if (ND_BOOL()) { V_HAVOC_ERRNO(); return -1; }
  g_match = ND_BOOL(); g_len = ND_UINT();
  if (g_match) V_ASSUME(g_len >= 1 && g_len <= 1u << 30); else { V_ASSUME(g_len <= 1u << 30); g_eof = 1; }
  lbuf[0] = ND_CHAR();
  sa->s = lbuf; sa->a = 64; sa->len = g_len; *match = g_match;
  if (g_match || g_len) { g_pending = 1; g_stage = 0; }
  return 0;
}
int substdio_put(substdio *s, const char *b, size_t n)
{
  unsigned content = g_match ? g_len - 1 : g_len;    /* the line without its LF */
  V_ASSERT(s == &ssout && !g_final, "C19: nothing follows the lone-dot terminator");
  if (n == 5 && b != lbuf) { V_ASSERT(b[0] == '\r' && b[1] == '\n' && b[2] == '.' && b[3] == '\r' && b[4] == '\n', "C19: the transmission ends with the extra blank line and the lone-dot terminator");
    V_ASSERT(!g_pending || (g_limit0 && g_hdr_done && g_bodylines + 1 >= g_limit0), "C19: the terminator is sent only after the whole message (or the TOP limit) was sent");
    g_final = 1; return 0; }
  V_ASSERT(g_pending, "C19: only bytes of the stored message are sent");
  if (g_stage == 0 && n == 1 && b != lbuf) { V_ASSERT(b[0] == '.' && content > 0 && lbuf[0] == '.', "C19: a dot is prepended exactly to lines that begin with a dot"); g_stage = 1; return 0; }
  if (g_stage <= 1 && b == lbuf) { V_ASSERT(n == content, "C19: each line is sent unchanged, without its LF"); V_ASSERT(g_stage == 1 || content == 0 || lbuf[0] != '.', "C19: a dot is prepended exactly to lines that begin with a dot"); g_stage = 2; return 0; }
  V_ASSERT(g_stage == 2 && n == 2 && b[0] == '\r' && b[1] == '\n', "C19: each line is terminated by CR LF");
  g_pending = 0;
  if (g_hdr_done) ++g_bodylines; else if (content == 0) g_hdr_done = 1;
  return 0;
}
int substdio_flush(substdio *s) { g_flushed = 1; return 0; }
void h_blast(void)
{
  substdio ss;
  g_limit0 = ND_ULONG(); g_bodylines = 0; g_pending = g_eof = g_final = g_hdr_done = g_flushed = 0; g_match = 0; g_len = 0;
  V_ASSUME(g_limit0 <= 1ul << 40);
  line.s = lbuf; line.len = 0; line.a = 64;
  blast(&ss, g_limit0);
  V_ASSERT(g_final && g_flushed, "C19: the transmission ends with the extra blank line and the lone-dot terminator");
  if (g_limit0 == 0) V_ASSERT(g_eof && !g_pending, "C19: RETR sends every line of the stored message");
  else V_ASSERT((g_eof && !g_pending) || (g_hdr_done && g_bodylines == g_limit0 - 1), "C19: TOP n sends the header, the blank line and exactly n body lines (or the whole message if shorter)");
  V_COVER(g_limit0 > 2 && g_bodylines == g_limit0 - 1); V_COVER(g_eof && !g_match && g_len > 0);
}
#endif

/* ---- main: refuses to run as root ---- */
#ifdef P_MAIN
int g_root, g_did_something;
uid_t getuid(void) { g_root = ND_BOOL(); return g_root ? 0 : 1000; }
void sig_alarmcatch(void (*f)()) {} void sig_pipeignore(void) {}
int chdir(const char *p) { g_did_something = 1; return ND_BOOL() ? -1 : 0; }
int commands(substdio *ss, struct commands *c) { g_did_something = 1; return 0; }
void h_main(void)
{
  static char *av[3] = { "qmail-pop3d", "Maildir", 0 };
  g_did_something = 0;
  main(2, av);
}
void verif_exit_check(void) { V_ASSERT(!g_root || !g_did_something, "C19: the server refuses to run as root before touching anything"); V_COVER(g_root); }
#endif
