#include "verif.h"
#ifdef P_QUIT
void verif_die_check(void);
void die(void) { verif_die_check(); V_ASSUME(0); }
void die_nomem(void) { V_ASSUME(0); }
#endif
#ifdef P_MAIN
extern int g_did_something;
void verif_exit_check(void);
void die(void) { verif_exit_check(); V_ASSUME(0); }
void getlist(void) { g_did_something = 1; }
#endif
#ifdef P_BLAST
void die(void) { V_ASSUME(0); }
#endif
