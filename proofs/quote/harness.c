/* C17 (bounded stand-ins): quote.c - quoting for MAIL/RCPT and headers, and its inverse in the SMTP server's addrparse. */
#include "verif.h"
#include <errno.h>
#include "quote.c"

#define CAP 48
static char ob[CAP], ib[CAP], fb[CAP];
int g_fail;
/* fixed-capacity stralloc model: every object in its own static buffer */
static char *bufof(stralloc *sa) { return sa == &foo ? fb : ob; }
int stralloc_ready(stralloc *sa, unsigned int n) { V_ASSERT(n <= CAP, "C17: supporting: model capacity"); sa->s = bufof(sa); sa->a = CAP; return 1; }
int stralloc_copy(stralloc *to, stralloc *from) { unsigned k; to->s = bufof(to); to->a = CAP; for (k = 0; k < from->len && k < CAP; ++k) to->s[k] = from->s[k]; to->len = from->len; return 1; }
int stralloc_copys(stralloc *sa, char *s) { unsigned k = 0; sa->s = bufof(sa); sa->a = CAP; while (s[k] && k < CAP) { sa->s[k] = s[k]; ++k; } sa->len = k; return 1; }
int stralloc_cats(stralloc *sa, char *s) { unsigned k = 0; while (s[k] && sa->len < CAP) { sa->s[sa->len++] = s[k]; ++k; } return 1; }

#ifndef NQ
#define NQ 6
#endif
/* reference unquoter for the SMTP form (RFC 821 / what qmail-smtpd's addrparse does): backslash quotes the next byte,
 * double quotes toggle quoting and are dropped */
static int unquote(const char *q, unsigned qn, char *out)
{
  unsigned k, n = 0; int esc = 0;
  for (k = 0; k < qn; ++k) { char c = q[k]; if (esc) { out[n++] = c; esc = 0; } else if (c == '\\') esc = 1; else if (c == '"') ; else out[n++] = c; }
  return (int)n;
}
void h_quote_roundtrip(void)
{
  static char dec[CAP]; stralloc in, out; unsigned n = ND_UINT() % (NQ + 1), k; int dn, inq = 0, esc = 0;
  for (k = 0; k < NQ; ++k) { ib[k] = ND_CHAR(); if (k < n) V_ASSUME(ib[k] != 0 && ib[k] != '\n'); }
  in.s = ib; in.len = n; in.a = CAP; out.s = 0; out.len = 0; out.a = 0;
  V_ASSERT(quote(&out, &in) == 1, "C17: supporting: quoting succeeds");
  dn = unquote(out.s, out.len, dec);
  V_ASSERT(dn == (int)n, "C17: an address quoted for a MAIL/RCPT command decodes to the identical local part");
  for (k = 0; k < NQ; ++k) if (k < n) V_ASSERT(dec[k] == ib[k], "C17: an address quoted for a MAIL/RCPT command decodes to the identical local part");
  /* the quoted form is one SMTP token: outside double quotes no space, no @, no angle bracket, no unescaped special */
  for (k = 0; k < CAP && k < out.len; ++k) {
    char c = out.s[k];
    if (esc) { esc = 0; continue; }
    if (c == '\\') { V_ASSERT(inq, "C17: supporting: backslash only inside quotes"); esc = 1; continue; }
    if (c == '"') { inq = !inq; continue; }
    if (!inq) V_ASSERT(c != ' ' && c != '@' && c != '<' && c != '>' && c != '(' && c != ')' && c != ',' && c != ';' && c != ':' && c != '[' && c != ']' && (unsigned char)c > 32 && (unsigned char)c < 127,
                       "C17: everything that is special for the SMTP / RFC 822 parsers is inside the quotes");
  }
  V_ASSERT(!inq && !esc, "C17: quotes are balanced");
  if (n && out.len == n) { V_ASSERT(ib[0] != '.' && ib[n - 1] != '.', "C17: an unquoted local part is a dot-atom (no leading or trailing dot)"); for (k = 0; k + 1 < NQ; ++k) if (k + 1 < n) V_ASSERT(!(ib[k] == '.' && ib[k + 1] == '.'), "C17: an unquoted local part is a dot-atom (no double dot)"); }
  V_ASSERT(n != 0 || out.len == 2, "C17: the empty local part is written as an empty quoted string");
  V_COVER(out.len == 2 * NQ + 2); V_COVER(out.len == n && n == NQ);
}

#ifndef NA2
#define NA2 9
#endif
int g_qlen = -1; char *g_cats;
void h_quote2_split(void)
{
  static char s[NA2 + 1]; stralloc sa; unsigned n = ND_UINT() % (NA2 + 1), k; int last = -1, r;
  for (k = 0; k < NA2; ++k) { s[k] = ND_CHAR(); if (k < n) V_ASSUME(s[k] != 0); }
  s[n] = 0;
  for (k = 0; k < NA2; ++k) if (k < n && s[k] == '@') last = (int)k;
  sa.s = 0; sa.len = 0; sa.a = 0;
  r = quote2(&sa, s);
  V_ASSERT(r == 1, "C17: supporting");
  if (n == 0) V_ASSERT(sa.len == 0, "C17: the empty address stays empty");
  else if (last < 0) V_ASSERT(foo.len == n, "C17: an address without @ is quoted as a whole");
  else {
    V_ASSERT(foo.len == (unsigned)last, "C17: the local part - everything before the LAST @ - is quoted, so an @ inside the local part ends up inside the quotes");
    V_ASSERT(sa.len >= n - (unsigned)last, "C17: supporting");
    for (k = 0; k < NA2; ++k) if (k < n - (unsigned)last) V_ASSERT(sa.s[sa.len - (n - (unsigned)last) + k] == s[(unsigned)last + k], "C17: the domain (from the last @ on) is appended unchanged");
  }
  V_COVER(last >= 0 && last != (int)n - 1 && n == NA2);
}
