PROOFS = [
  dict(name="quote_roundtrip", slow=True, properties=["C17"], entry="h_quote_roundtrip", units=["harness.c"], mode="plain", unwind=50, timeout=600, min_tagged=6,
       title="quote.c quote()/quote_need()/doit(): for every local part of <= 6 bytes (all bytes but NUL and LF) the SMTP form decodes back to it and hides every special inside quotes",
       functions=["quote.c:quote", "quote.c:quote_need", "quote.c:doit"], bounded="local parts of at most 6 bytes over the full byte alphabet except NUL and LF; fixed-capacity stralloc model",
       canaries=[dict(name="backslash-not-escaped", file="quote.c", literal=True, pattern="   if ((ch == '\\r') || (ch == '\\n') || (ch == '\"') || (ch == '\\\\'))", repl="   if ((ch == '\\r') || (ch == '\\n') || (ch == '\"'))", expect=r"C17"),
                 dict(name="trailing-dot-not-quoted", file="quote.c", literal=True, pattern=" if (s[n - 1] == '.') return 1;\n", repl="", expect=r"C17: an unquoted local part is a dot-atom")]),
  dict(name="quote2_split", slow=True, properties=["C17"], entry="h_quote2_split", units=["harness.c", "repo:str_rchr.c", "repo:str_chr.c"], mode="plain", unwind=50, timeout=600, min_tagged=3,
       title="quote.c quote2(): the part before the LAST @ is quoted, the domain appended unchanged, for every address of <= 9 bytes",
       functions=["quote.c:quote2"], bounded="addresses of at most 9 bytes over the full byte alphabet except NUL",
       canaries=[dict(name="split-at-first-at", file="quote.c", literal=True, pattern=" j = str_rchr(s,'@');", repl=" j = str_chr(s,'@');", expect=r"C17: the local part - everything before the LAST")]),
]
