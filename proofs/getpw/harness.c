/* C11 C20: qmail-getpw.c userext() - which system user an address belongs to when users/assign does not say.
 * Real file unmodified.  The password database and the file system are oracles (any answer, any error); the local part has any length.
 * Ghost index g_K (arbitrary offset) = "for every candidate prefix". */
#include "verif.h"
#include <errno.h>
#include <stdlib.h>
#include "qmail-getpw.c"
char auto_break[2]; char auto_usera[2];
char *g_l; unsigned g_ll, g_K; int g_K_probed, g_nprobe, g_exit; long g_lastoff, g_copied; char *g_ubuf; struct passwd g_pw; int g_pw_ok, g_stat_ok; static char g_dir[2];
size_t strlen(const char *s) { V_ASSERT(s == g_l, "C11: supporting"); return g_ll; }
void byte_copy(char *to, unsigned int n, char *from)
{
  V_ASSERT(from == g_l && n < GETPW_USERLEN, "C20,C11: only candidate names shorter than 32 bytes are copied into the user-name buffer");
  V_ASSERT((long)n < g_lastoff && n <= g_ll && (g_l[n] == 0 || g_l[n] == '-'), "C11: candidate user names are the whole local part and its prefixes before a dash, longest first");
  g_ubuf = to; g_copied = (long)n; g_lastoff = (long)n; if (n == g_K) g_K_probed = 1; if (g_nprobe < 3) ++g_nprobe;
}
void case_lowers(char *s) { V_ASSERT(s == g_ubuf, "C11: the candidate name is lower-cased before the lookup"); }
struct passwd *getpwnam(const char *name)
{
  int r = ND_INT();
  V_ASSERT(name == g_ubuf && g_copied >= 0, "C11: the password database is asked for exactly the candidate just prepared");
  g_copied = -1; g_pw_ok = 0; g_stat_ok = 0;
  if (r == 1) { errno = ETXTBSY; return 0; }
  if (r == 2) { g_pw.pw_uid = ND_UINT(); g_pw.pw_gid = ND_UINT(); g_pw.pw_dir = g_dir; g_pw_ok = 1; return &g_pw; }
  return 0;
}
int stat(const char *p, struct stat *st)
{
  int r = ND_INT();
  V_ASSERT(g_pw_ok && p == g_dir && g_pw.pw_uid != 0, "C11: the home directory is examined only for an existing, non-root user");
  if (r == 0) { st->st_uid = ND_UINT(); g_stat_ok = st->st_uid == g_pw.pw_uid; return 0; }
  errno = ND_INT(); return -1;
}
int error_temp(int e) { return ND_BOOL(); }
void _exit(int e) { V_ASSERT(e == QLX_SYS || e == QLX_NFS, "C11: a lookup that cannot be completed defers the delivery (temporary codes only)"); g_exit = e; V_ASSUME(0); }
void harness(void)
{
  int r; long off;
  auto_break[0] = '-'; auto_break[1] = 0; g_dir[0] = '/'; g_dir[1] = 0;
  g_ll = ND_UINT(); g_K = ND_UINT(); V_ASSUME(g_ll <= 0x3fffffff); g_l = malloc((size_t)g_ll + 1); V_ASSUME(g_l != 0); g_l[g_ll] = 0;
  if (g_K < g_ll) V_ASSUME(g_l[g_K] != 0);
  g_K_probed = g_nprobe = 0; g_exit = -1; g_lastoff = 0x7fffffff; g_copied = -1; g_ubuf = 0; g_pw_ok = g_stat_ok = 0; local = g_l; pw = 0;
  r = userext();
  V_ASSERT(r == 0 || r == 1, "C11: supporting");
  if (r == 1) {
    off = g_lastoff;
    V_ASSERT(pw == &g_pw && g_pw_ok && g_pw.pw_uid != 0 && g_stat_ok, "C11: an address belongs to a system user only if that user exists, is not root, and owns an existing home directory");
    V_ASSERT(g_l[off] == 0 ? (extension == g_l + off && dash[0] == 0) : (extension == g_l + off + 1 && dash[0] == '-' && !dash[1]), "C11: the rest of the local part after the user name and its dash is the extension");
    if (g_K <= g_ll && (long)g_K > off && g_K < GETPW_USERLEN && (g_K == g_ll || g_l[g_K] == '-')) V_ASSERT(g_K_probed, "C11: no longer candidate was skipped before the user that was chosen");
  } else if (g_K <= g_ll && g_K < GETPW_USERLEN && (g_K == g_ll || g_l[g_K] == '-')) V_ASSERT(g_K_probed, "C11: every candidate is looked up before the address falls to the alias user");
  V_COVER(r == 1 && g_nprobe >= 3); V_COVER(r == 0 && g_nprobe >= 3 && g_ll > 40);
}
