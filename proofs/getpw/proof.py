PROOF = dict(
    name="getpw_userext", properties=["C11", "C20"], units=["harness.c"], mode="dfcc", timeout=300, min_tagged=8, unwind=20, cbmc_flags=["--no-pointer-primitive-check"],
    loops=[dict(function="userext", head="for (;;)",
                invariants="local == g_l && __CPROVER_same_object(extension, g_l) && __CPROVER_r_ok(extension, 1) && g_l <= extension && extension <= g_l + g_ll && g_l[g_ll] == 0 && g_ll <= 0x3fffffff && g_copied == -1"
                           " && g_lastoff > (long)(extension - g_l) && (!(g_K <= g_ll && (long)g_K > (long)(extension - g_l) && g_K < 32 && (g_K == g_ll || g_l[g_K] == 45)) || g_K_probed)",
                assigns="extension, pw, dash, __CPROVER_object_whole(username), __CPROVER_errno, g_K_probed, g_nprobe, g_lastoff, g_copied, g_ubuf, g_pw, g_pw_ok, g_stat_ok, g_exit, st", symbols=["username", "st"])],
    title="qmail-getpw.c userext(): candidate users = the local part and its prefixes before a dash, longest first, none skipped, each < 32 bytes and lower-cased; chosen only if the user exists, is not root and owns its home; lookup trouble defers - local parts of any length",
    functions=["qmail-getpw.c:userext"],
    replaced=["getpwnam, stat (oracles: any answer, any error)", "byte_copy, case_lowers, strlen (contracts)"],
    canaries=[dict(name="root-accepted", file="qmail-getpw.c", literal=True, pattern="\t  if (pw->pw_uid) {", repl="\t  if (1) {", expect=r"C11"),
              dict(name="name-buffer-overrun", file="qmail-getpw.c", literal=True, pattern="    if (extension - local < sizeof(username))", repl="    if (extension - local <= sizeof(username))", expect=r"."),
              dict(name="home-owner-not-checked", file="qmail-getpw.c", literal=True, pattern="\t      if (st.st_uid == pw->pw_uid) {", repl="\t      if (st.st_uid == pw->pw_uid || st.st_uid == 0) {", expect=r"C11: an address belongs")],
)
