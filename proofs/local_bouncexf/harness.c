/* C13: qmail-local.c bouncexf() - the delivery-loop check: a message that already carries this recipient's own Delivered-To line bounces.
 * Real file unmodified.  The message is an oracle (getln yields lines of any length; EOF/read error at any point); the byte comparison
 * with the Delivered-To line is an oracle too (equal / different), so every header is covered. */
#include "verif.h"
#include <stdlib.h>
#include "qmail-local.c"
int g_rewound, g_ended, g_match, g_samelen, g_cmp_pending, g_equal_seen, g_died, g_readerr; unsigned g_dtlen, g_nlines;
void strerr_die(int e, const char *a, const char *b, const char *c, const char *d, const char *e5, const char *f, struct strerr *se)
{
  V_ASSERT(e == 100 && g_equal_seen, "C13: the looping-message bounce (100) is given only for a header line identical to this recipient's Delivered-To line");
  g_died = e; V_ASSUME(0);
}
off_t lseek(int fd, off_t o, int w) { V_ASSERT(fd == 0 && o == 0 && w == SEEK_SET && !g_rewound, "C13: the message is rewound before its header is examined"); g_rewound = 1; return ND_BOOL() ? -1 : 0; }
int getln(substdio *s, stralloc *sa, int *match, int sep)
{
  unsigned n = ND_UINT();
  V_ASSERT(g_rewound && sa == &messline && sep == '\n' && s->fd == 0, "C13: supporting: header lines are read from the message on descriptor 0");
  V_ASSERT(!g_ended, "C13: only the header is examined: nothing is read after the first blank line or the end of the message");
  V_ASSERT(!g_cmp_pending, "C13: every header line as long as the Delivered-To line is compared with it");
  if (ND_BOOL()) { g_readerr = 1; return -1; }
  g_match = ND_BOOL(); *match = g_match; messline.len = n; if (g_nlines < 3) ++g_nlines;
  if (!g_match || n <= 1) g_ended = 1;              /* unterminated last line / blank line (LF only): end of the header */
  else if (n == g_dtlen) g_cmp_pending = 1;
  return 0;
}
int strncmp(const char *a, const char *b, size_t n)
{
  V_ASSERT(a == messline.s && b == dtline.s && n == g_dtlen && g_cmp_pending, "C13: a header line is compared with the whole Delivered-To line, and only when their lengths agree");
  g_cmp_pending = 0; if (ND_BOOL()) { g_equal_seen = 1; return 0; } return 1;
}
void harness(void)
{
  static char lb[4], db[4];
  g_rewound = g_ended = g_cmp_pending = g_equal_seen = g_readerr = 0; g_died = -1; g_nlines = 0;
  g_dtlen = ND_UINT(); V_ASSUME(g_dtlen >= 15); dtline.s = db; dtline.len = g_dtlen; messline.s = lb; messline.len = 0;
  bouncexf();
  V_ASSERT(g_ended && !g_equal_seen && !g_cmp_pending, "C13: bouncexf returns (delivery goes on) only after the whole header was examined and no line was identical to the Delivered-To line");
  V_COVER(g_nlines >= 3);
}
