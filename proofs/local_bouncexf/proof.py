PROOF = dict(
    name="local_bouncexf", properties=["C13"], units=["harness.c", "stubs2.c", "repo:substdio.c"], mode="dfcc", timeout=300, min_tagged=5, unwind=20,
    remove_bodies={"harness.c": ["temp_read", "temp_rewind"]},
    loops=[dict(function="bouncexf", head="for (;;)", invariants="g_rewound && !g_ended && !g_cmp_pending && !g_equal_seen && !g_readerr && ss.fd == 0 && dtline.len == g_dtlen",
                assigns="match, messline.len, g_ended, g_match, g_cmp_pending, g_equal_seen, g_readerr, g_nlines, g_died", symbols=["match", "ss"])],
    title="qmail-local.c bouncexf(): the message is rewound, every header line as long as the Delivered-To line is compared with it, an identical line bounces (100), nothing after the first blank line is examined - any header",
    functions=["qmail-local.c:bouncexf"],
    replaced=["getln (any line / EOF / error; proof lib_getln)", "strncmp (oracle: equal or not)", "lseek"],
    canaries=[dict(name="loop-check-skips-equal-length-test", file="qmail-local.c", literal=True, pattern="   if (messline.len == dtline.len)\n     if (!str_diffn(messline.s,dtline.s,dtline.len))", repl="   if (messline.len >= dtline.len)\n     if (!str_diffn(messline.s,dtline.s,dtline.len))", expect=r"."),
              dict(name="body-scanned-too", file="qmail-local.c", literal=True, pattern="   if (messline.len <= 1)\n     break;\n   if (messline.len == dtline.len)", repl="   if (messline.len == dtline.len)", expect=r"."),
              dict(name="loop-not-bounced", file="qmail-local.c", literal=True, pattern='       strerr_die1x(100,"This message is looping: it already has my Delivered-To line. (#5.4.6)");', repl='       break;', expect=r".")],
)
