#include "verif.h"
extern int g_readerr, g_rewound;
void temp_read(void) { V_ASSERT(g_readerr, "C13: supporting: 'unable to read message' only after a read error"); V_ASSUME(0); }
void temp_rewind(void) { V_ASSUME(0); }
