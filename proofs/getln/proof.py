LOOPS = [dict(function="getln2", head="for (;;)",
                   invariants="ss == &ss_ && sa == &sa_ && sa_.s == g_sb && sa_.a == g_sacap && sa_.len == g_total && g_total <= g_sacap && ss_.x == g_x && ss_.p == 0 && ss_.n == (int)g_xsize && !g_eof && !g_err && !g_nomem && !g_found",
                   assigns="x, i, __CPROVER_object_whole(g_sb), sa_.len, ss_.p, ss_.n, g_total, g_avail, g_eof, g_err, g_nomem, g_i, g_found, g_cont, g_clen, *cont, *clen", symbols=["ss", "sa", "x", "i", "cont", "clen"])]
L2 = dict(properties=["C20"], units=["harness.c"], mode="dfcc", timeout=300, unwind=20)
PROOFS = [
  dict(name="lib_getln2", properties=["C20"], entry="h_getln2", units=["harness.c"], mode="dfcc", timeout=300, min_tagged=6, unwind=20,
       loops=LOOPS,
       title="getln2.c getln2(): chunks without separator are appended whole and in order inside the line buffer, the rest up to the first separator is handed back, exactly the line is consumed; EOF and errors - any line length, any chunking",
       functions=["getln2.c:getln2"],
       replaced=["substdio_feed/substdio_get (stream oracle: any chunking, EOF, error)", "byte_chr (contract, proof lib_byte_chr)", "stralloc_ready/readyplus/catb (one allocation of arbitrary capacity; proofs lib_sa_*)"],
       canaries=[dict(name="separator-not-consumed", file="getln2.c", literal=True, pattern="substdio_SEEK(ss,*clen = i + 1)", repl="substdio_SEEK(ss,*clen = i)", expect=r"."),
                 dict(name="chunk-appended-at-start", file="getln2.c", literal=True, pattern="    m = substdio_get(ss,sa->s + i,n);", repl="    m = substdio_get(ss,sa->s,n);", expect=r"C20: a chunk without separator is appended whole"),
                 dict(name="no-room-reserved", file="getln2.c", literal=True, pattern="    if (!stralloc_readyplus(sa,n)) return -1;\n", repl="", expect=r".")]),
  dict(L2, name="lib_getln", entry="h_getln", min_tagged=3, loops=LOOPS,
       title="getln.c getln(): match = 1 exactly when the line ends with the separator (rest appended once), match = 0 with the partial line at end of input, -1 on error - on top of the real getln2()",
       functions=["getln.c:getln", "getln2.c:getln2"],
       canaries=[dict(name="match-set-at-eof", file="getln.c", literal=True, pattern="  if (!clen) { *match = 0; return 0; }", repl="  if (!clen) { *match = 1; return 0; }", expect=r"C20: match is set exactly")]),
]
