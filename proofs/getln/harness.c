/* C20 (+ the contract every line-oriented proof assumes): getln.c getln() and getln2.c getln2().  Real files unmodified.
 * The stream is an oracle: substdio_feed makes any number of bytes (1..buffer size) available, or reports EOF / an error; the line
 * buffer is one allocation of arbitrary capacity (allocation fails when the line would not fit). */
#include "verif.h"
#include <stdlib.h>
#include "getln2.c"
#include "getln.c"

char *g_x, *g_sb; unsigned g_xsize, g_sacap, g_total; int g_avail, g_eof, g_err, g_nomem, g_found, g_catb; unsigned g_i; char *g_cont; unsigned g_clen;
substdio ss_; stralloc sa_;
#define ss ss_
#define sa sa_
int stralloc_ready(stralloc *s, unsigned int n) { V_ASSERT(s == &sa && n == 0, "C20: supporting"); if (ND_BOOL()) { g_nomem = 1; return 0; } sa.s = g_sb; sa.a = g_sacap; return 1; }
int stralloc_readyplus(stralloc *s, unsigned int n) { V_ASSERT(s == &sa && n == (unsigned)g_avail, "C20: room for the whole available chunk is reserved before it is copied"); if ((unsigned long)sa.len + n > g_sacap || ND_BOOL()) { g_nomem = 1; return 0; } return 1; }
ssize_t substdio_feed(substdio *s)
{
  int n = ND_INT();
  V_ASSERT(s == &ss && !g_eof && !g_err && !g_found, "C20: supporting: nothing is read after EOF, an error or the end of the line");
  V_ASSERT(ss.p == 0, "C20: every chunk made available was consumed (appended to the line) before the next one is asked for - no byte of the stream is skipped");
  if (n < 0) { g_err = 1; return -1; }
  if (n == 0) { g_eof = 1; return 0; }
  V_ASSUME((unsigned)n <= g_xsize); g_avail = n; ss.p = n; ss.n = (int)g_xsize - n; return n;
}
unsigned int byte_chr(char *s, unsigned int n, int c)
{
  unsigned i = ND_UINT();
  V_ASSERT(s == g_x + ss.n && n == (unsigned)g_avail && ss.p == g_avail, "C20: the separator is looked for in exactly the bytes made available");
  V_ASSUME(i <= n && (i == n || s[i] == (char)c)); g_i = i; if (i < n) { g_found = 1; g_cont = s; g_clen = i + 1; } return i;
}
ssize_t substdio_get(substdio *s, char *b, size_t len)
{
  V_ASSERT(s == &ss && b == g_sb + g_total && sa.len == g_total && len == (size_t)g_avail && (unsigned long)g_total + len <= g_sacap, "C20: a chunk without separator is appended whole, right after the bytes collected so far, inside the line buffer");
  g_total += (unsigned)len; ss.p -= (int)len; ss.n += (int)len; return (ssize_t)len;
}
int stralloc_catb(stralloc *s, char *b, unsigned int n)
{
  V_ASSERT(s == &sa && b == g_cont && n == g_clen && g_found, "C20: getln appends exactly the rest of the line that getln2 found");
  g_catb = 1; if (ND_BOOL()) { g_nomem = 1; return 0; } return 1;
}
static void setup(void)
{
  g_xsize = ND_UINT(); g_sacap = ND_UINT(); V_ASSUME(g_xsize >= 1 && g_xsize <= 0x3fffffff && g_sacap <= 0x7fffffff);
  g_x = malloc(g_xsize); g_sb = malloc(g_sacap ? g_sacap : 1); V_ASSUME(g_x && g_sb);
  ss.x = g_x; ss.p = 0; ss.n = (int)g_xsize; ss.fd = 3; ss.op = 0; sa.s = 0; sa.len = ND_UINT(); sa.a = 0;
  g_total = 0; g_avail = 0; g_eof = g_err = g_nomem = g_found = g_catb = 0; g_i = 0; g_cont = 0; g_clen = 77;
}
void h_getln2(void)
{
  char *cont = 0; unsigned clen = 77; int r; int sep = ND_CHAR();
  setup();
  r = getln2(&ss, &sa, &cont, &clen, sep);
  V_ASSERT(r == 0 || r == -1, "C20: supporting");
  V_ASSERT((r == -1) == (g_err || g_nomem), "C20: -1 exactly on a read error or when out of memory");
  if (r == 0) {
    V_ASSERT(sa.len == g_total && sa.s == g_sb, "C20: the collected part of the line is exactly the chunks read so far");
    if (g_eof) V_ASSERT(clen == 0, "C20: at end of input the partial line is returned without a rest (no separator)");
    else { V_ASSERT(clen == g_i + 1 && clen <= (unsigned)g_avail && cont == g_x + ((int)g_xsize - g_avail) && cont[clen - 1] == (char)sep, "C20: otherwise the rest is the available bytes up to and including the first separator");
           V_ASSERT(ss.p == g_avail - (int)clen && ss.n == (int)g_xsize - ss.p, "C20: exactly the bytes of this line are consumed from the stream; the following bytes stay buffered"); }
  }
  V_COVER(r == 0 && !g_eof && g_total > 100 && clen > 2); V_COVER(r == 0 && g_eof && g_total > 0);
}
/* getln() with the real getln2() underneath (same loop contract) */
void h_getln(void)
{
  int match = 7, r; int sep = ND_CHAR();
  setup();
  r = getln(&ss, &sa, &match, sep);
  V_ASSERT((r == -1) == (g_err || g_nomem) && (r == 0 || r == -1), "C20: getln fails exactly on a read error or when out of memory");
  if (r == 0) {
    V_ASSERT(match == (g_eof ? 0 : 1), "C20: match is set exactly when the line ends with the separator; at end of input the partial line is returned with match = 0");
    V_ASSERT(g_catb == (g_eof ? 0 : 1) && (g_eof || g_found), "C20: the rest of the line up to and including the separator is appended exactly once");
  }
  V_COVER(r == 0 && match == 1 && g_total > 3); V_COVER(r == 0 && match == 0 && g_total > 3);
}
