GH = "g_n, g_lastcr, g_pending, g_lastj, g_oom, g_vend, g_vend_set, g_firsthit, g_ncmp, g_called, g_flushed"
LINE0 = "!g_oom && g_lastj == 7"
PROOF = dict(
    name="commands", properties=["C08", "C19", "C20"], units=["harness.c"], mode="dfcc", timeout=600, min_tagged=10, unwind=20, cbmc_flags=["--no-pointer-primitive-check"],
    unwindset=[dict(function="commands", head="for (i = 0;c[i].text;++i)", bound=5)],
    loops=[
        dict(function="commands", head="for (;;) {", nth=0,
             invariants=LINE0 + " && (!g_pending || g_called) && (!(g_called == 1 || g_called == 3 || g_called == 4) || g_flushed)",
             assigns="cmd, i, arg, __CPROVER_object_whole(g_buf), " + GH, symbols=["i", "arg"]),
        dict(function="commands", head="for (;;) {", nth=1,
             invariants=LINE0 + " && cmd.s == g_buf && cmd.a == g_cap && cmd.len == g_n && g_n <= g_cap && !g_pending && !g_called && !g_flushed && !g_vend_set && g_firsthit == -1 && g_ncmp == 0"
                        " && (g_n == 0 ? !g_lastcr : (g_lastcr == (g_buf[g_n - 1] == 13)))",
             assigns="cmd.len, __CPROVER_object_whole(g_buf), g_n, g_lastcr, g_pending, g_lastj, g_oom"),
        dict(function="commands", head="while (*arg == ' ') ++arg;",
             invariants="cmd.s == g_buf && g_vend <= cmd.len && cmd.len < g_cap && __CPROVER_same_object(arg, g_buf) && __CPROVER_r_ok(arg, 1) && g_buf + g_vend <= arg && arg <= g_buf + cmd.len && g_buf[cmd.len] == 0",
             assigns="arg", symbols=["arg"]),
    ],
    title="commands.c commands(): every line (CR LF or bare LF, any length) is NUL-terminated and dispatched exactly once to the first matching table entry or the default, argument inside the line; buffer never overrun; for any byte stream",
    functions=["commands.c:commands"],
    replaced=["stralloc_copys/stralloc_readyplus (one allocation of arbitrary capacity; proofs lib_sa_*)", "substdio_get (any byte, EOF or error at any point)", "str_chr (contract: first blank or NUL)", "case_diffs (oracle: any table entry may match)"],
    assumptions=["C08: dispatch table of three verbs plus the default entry (the search loop is unwound completely for this table; its body is the same for every entry)"],
    canaries=[
        dict(name="nul-only-after-cr", file="commands.c", literal=True, pattern="    if (cmd.len > 0) if (cmd.s[cmd.len - 1] == '\\r') --cmd.len;\n\n    cmd.s[cmd.len] = 0;", repl="    if (cmd.len > 0) if (cmd.s[cmd.len - 1] == '\\r') cmd.s[--cmd.len] = 0;", expect=r"."),
        dict(name="search-continues-after-match", file="commands.c", literal=True, pattern="if (case_equals(c[i].text,cmd.s)) break;", repl="if (case_equals(c[i].text,cmd.s)) if (i) break;", expect=r"C08"),
        dict(name="no-room-check", file="commands.c", literal=True, pattern="      if (!stralloc_readyplus(&cmd,1)) return -1;\n", repl="", expect=r"."),
        dict(name="flush-before-handler", file="commands.c", literal=True, pattern="    c[i].fun(arg);\n    if (c[i].flush) c[i].flush();", repl="    if (c[i].flush) c[i].flush();\n    c[i].fun(arg);", expect=r"C08: the reply"),
    ],
)
