/* C08 C19 C20: commands.c commands() - the command-line reader and dispatcher shared by qmail-smtpd, qmail-popup and qmail-pop3d.
 * The real file is compiled unmodified.  Line buffer model: ONE allocation of arbitrary capacity g_cap (1..2^31-1); stralloc_readyplus
 * fails (out of memory) when the line would not fit, so every line length below every capacity is covered. */
#include "verif.h"
#include <stdlib.h>
#include "commands.c"

char *g_buf; unsigned g_cap;
unsigned g_n; int g_lastcr, g_pending, g_lastj, g_oom, g_ndispatch;
unsigned g_vend; int g_vend_set, g_firsthit, g_ncmp, g_called, g_flushed, g_arg_ok;
struct commands *g_tab;

int stralloc_copys(stralloc *sa, char *s)
{
  V_ASSERT(sa == &cmd && !s[0], "C08: supporting: the line buffer is emptied before each line");
  V_ASSERT(!g_pending || g_called, "C08: every complete command line is dispatched exactly once (before the next line is started)");
  V_ASSERT(!(g_called == 1 || g_called == 3 || g_called == 4) || g_flushed, "C08: the reply of a command whose table entry has a flush function is flushed before the next command is read");
  g_pending = 0; g_called = 0; g_flushed = 0; g_vend_set = 0; g_firsthit = -1; g_ncmp = 0; g_n = 0; g_lastcr = 0;
  if (ND_BOOL()) { g_oom = 1; return 0; }
  cmd.s = g_buf; cmd.a = g_cap; cmd.len = 0; return 1;
}
int stralloc_readyplus(stralloc *sa, unsigned int n)
{
  V_ASSERT(sa == &cmd && n == 1, "C08: supporting: room for one more byte is requested before each read");
  if (cmd.len + 1 > g_cap || ND_BOOL()) { g_oom = 1; return 0; }
  return 1;
}
ssize_t substdio_get(substdio *ss, char *p, size_t n)
{
  int j = ND_INT();
  V_ASSERT(n == 1 && p == g_buf + cmd.len && cmd.len < g_cap, "C20,C08: each byte of a command line is read into the next free byte of the line buffer, inside its allocation");
  V_ASSERT(!g_pending, "C08: a complete command line is dispatched before anything further is read");
  if (j != 1) { g_lastj = j <= 0 ? (j < 0 ? -1 : 0) : 0; return g_lastj; }
  *p = ND_CHAR();
  if (*p == '\n') g_pending = 1; else { ++g_n; g_lastcr = *p == '\r'; }
  return 1;
}
/* contract of str_chr (proof lib_str_chr): index of the first occurrence of c or of the terminating NUL */
unsigned int str_chr(char *s, int c)
{
  unsigned r = ND_UINT();
  V_ASSERT(s == g_buf && c == ' ' && g_pending && g_buf[cmd.len] == 0, "C08: the verb is looked for in the NUL-terminated line just read");
  V_ASSUME(r <= cmd.len && (g_buf[r] == ' ' || g_buf[r] == 0));
  g_vend = r; g_vend_set = 1; return r;
}
int case_diffs(char *s, char *t)
{
  int r = ND_BOOL();
  V_ASSERT(g_vend_set && t == g_buf && g_buf[g_vend] == 0, "C08: the verb compared with the table is the line up to its first blank, NUL-terminated");
  V_ASSERT(g_firsthit < 0 && g_ncmp < 3 && s == g_tab[g_ncmp].text, "C08: table entries are tried in order and the search stops at the first match");
  if (!r) g_firsthit = g_ncmp;
  ++g_ncmp; return r;
}
static void called(int k, char *arg)
{
  V_ASSERT(g_pending && !g_called, "C08: every complete command line is dispatched exactly once");
  V_ASSERT(k == (g_firsthit >= 0 ? g_firsthit : 3) && (g_firsthit >= 0 || g_ncmp == 3), "C08: a command goes to the handler of the first table entry equal to its verb, otherwise (after all entries) to the default handler");
  V_ASSERT(cmd.len == g_n - (g_lastcr ? 1u : 0u), "C08: the line handed on is the line read, without its LF and without one CR before it - whether it ended in CR LF or in a bare LF");
  V_ASSERT(g_buf[cmd.len] == 0, "C08,C20: the command line is NUL-terminated at its end before it is handed to a handler (a handler never reads leftovers of an earlier, longer line)");
  V_ASSERT(arg >= g_buf + g_vend && arg <= g_buf + cmd.len && *arg != ' ', "C08,C20: the argument handed to the handler starts after the verb and its blanks and lies inside the current line");
  V_ASSERT(arg == g_buf + g_vend ? g_vend == cmd.len || g_buf[g_vend] == 0 : 1, "C08: supporting");
  g_called = 1 + k;
}
static void f0(char *a) { called(0, a); } static void f1(char *a) { called(1, a); } static void f2(char *a) { called(2, a); } static void fdef(char *a) { called(3, a); }
static void flush0(void) { V_ASSERT(g_called == 1 && !g_flushed, "C08: the reply of a command is flushed after its handler ran, once"); g_flushed = 1; }
static void flush2(void) { V_ASSERT(g_called == 3 && !g_flushed, "C08: the reply of a command is flushed after its handler ran, once"); g_flushed = 1; }
static void flushd(void) { V_ASSERT(g_called == 4 && !g_flushed, "C08: the reply of a command is flushed after its handler ran, once"); g_flushed = 1; }
static substdio g_ss;
void harness(void)
{
  struct commands tab[4]; int r;
  static char v0[] = "helo", v1[] = "mail", v2[] = "quit";
  v0[0] = 'h'; v0[4] = 0; v1[0] = 'm'; v1[4] = 0; v2[0] = 'q'; v2[4] = 0;
  tab[0].text = v0; tab[0].fun = f0; tab[0].flush = flush0;
  tab[1].text = v1; tab[1].fun = f1; tab[1].flush = 0;
  tab[2].text = v2; tab[2].fun = f2; tab[2].flush = flush2;
  tab[3].text = 0; tab[3].fun = fdef; tab[3].flush = flushd;
  g_tab = tab;
  g_cap = ND_UINT(); V_ASSUME(g_cap >= 1 && g_cap <= 0x7fffffff); g_buf = malloc(g_cap); V_ASSUME(g_buf != 0);
  cmd.s = 0; cmd.len = 0; cmd.a = 0;
  g_n = 0; g_lastcr = 0; g_pending = 0; g_lastj = 7; g_oom = 0; g_vend_set = 0; g_firsthit = -1; g_ncmp = 0; g_called = 0; g_flushed = 0;
  r = commands(&g_ss, tab);
  V_ASSERT(!g_pending, "C08: commands() returns only between lines or inside an unfinished line, never with a complete line undispatched");
  V_ASSERT(r == (g_oom ? -1 : g_lastj) && (r == 0 || r == -1), "C08: commands() returns 0 at end of input and -1 on a read error or when out of memory");
  V_COVER(r == 0 && g_n > 3); V_COVER(g_oom && g_n > 3);
}
