/* C08 / C07 / C05: the SMTP verbs of qmail-smtpd.c as operations on an abstract transaction view.
 * Each handler is proved from an ARBITRARY state (seenmail, flagbarf, number of accepted recipients, relaying on/off),
 * so sequences of commands follow by induction over operations.  The real qmail-smtpd.c is compiled unmodified;
 * handlers are loop-free once the stralloc operations are recording stubs. */
#include "verif.h"
#include "qmail-smtpd.c"

/* ---- abstract view ---- */
int v_nrcpt;        /* complete "T addr NUL" records in rcptto */
int v_rstate;       /* 0 clean, 1 after "T", 2 after the address */
int v_rcpt_touched; /* rcptto was modified by this command */
int v_from_set;     /* 0 untouched by this command, 1 copied from addr, 2 terminated */
int v_addr_fresh;   /* addr holds the result of a successful addrparse of this command's argument */
int v_addr_suffixed;/* relayclient was appended to addr (0 none, 1 len decremented, 2 cats done, 3 terminated) */
int v_addr_allowed; /* rcpthosts said yes for the current addr */
int v_bmf;          /* what bmfcheck answered for this command's address */
int v_reply;        /* first reply code written by this command */
int v_last;         /* last reply code written by this command */
unsigned g_addr_len0;
int v_nreplies;
int g_parse_ok;
char g_arg[4];

static char buf_rcptto[8], buf_mailfrom[8], buf_addr[8], buf_helo[8];

int stralloc_copys(stralloc *sa, char *s)
{
  if (ND_BOOL()) { V_HAVOC_ERRNO(); return 0; }
  if (sa == &rcptto) { V_ASSERT(s[0] == 0, "C08: rcptto is only ever reset to empty"); v_nrcpt = 0; v_rstate = 0; v_rcpt_touched = 1; rcptto.len = 0; }
  else if (sa == &mailfrom) { V_ASSERT(s == addr.s && v_addr_fresh, "C08: the envelope sender is the address parsed from this MAIL command"); v_from_set = 1; }
  else if (sa == &helohost) ;
  else V_ASSERT(0, "C08: supporting: unexpected stralloc_copys target");
  return 1;
}
int stralloc_cats(stralloc *sa, char *s)
{
  if (ND_BOOL()) { V_HAVOC_ERRNO(); return 0; }
  if (sa == &rcptto) {
    v_rcpt_touched = 1;
    if (v_rstate == 0) { V_ASSERT(s[0] == 'T' && s[1] == 0, "C08: a recipient record starts with T"); v_rstate = 1; rcptto.len += 1; }
    else if (v_rstate == 1) {
      V_ASSERT(s == addr.s && v_addr_fresh, "C08: the recipient stored is the address parsed from this RCPT command");
      V_ASSERT(relayclient ? v_addr_suffixed == 3 : (v_addr_suffixed == 0 && v_addr_allowed),
               "C08: a recipient is stored only if relaying is enabled (suffix appended) or its domain is in rcpthosts");
      v_rstate = 2; rcptto.len += 1; }
    else V_ASSERT(0, "C08: recipient records have the shape T address NUL");
  }
  else if (sa == &addr) {
    V_ASSERT(relayclient && s == relayclient && v_addr_suffixed == 0 && addr.len + 1 == g_addr_len0, "C08: only the RELAYCLIENT suffix is appended, after the terminating NUL was removed");
    v_addr_suffixed = 2; }
  else V_ASSERT(0, "C08: supporting: unexpected stralloc_cats target");
  return 1;
}
int stralloc_append(stralloc *sa, char *c)
{
  if (ND_BOOL()) { V_HAVOC_ERRNO(); return 0; }
  V_ASSERT(*c == 0, "C08: supporting: handlers only append the terminating NUL");
  if (sa == &rcptto) { V_ASSERT(v_rstate == 2, "C08: recipient records have the shape T address NUL"); v_rstate = 0; ++v_nrcpt; rcptto.len += 1; v_rcpt_touched = 1; }
  else if (sa == &mailfrom) { V_ASSERT(v_from_set == 1, "C08: supporting: mailfrom terminated after copy"); v_from_set = 2; }
  else if (sa == &addr) { V_ASSERT(v_addr_suffixed == 2, "C08: supporting: addr re-terminated after the suffix"); v_addr_suffixed = 3; }
  else if (sa == &helohost) ;
  else V_ASSERT(0, "C08: supporting: unexpected stralloc_append target");
  return 1;
}
int case_diffs(char *a, char *b) { return ND_INT(); }
int rcpthosts(char *b, unsigned int len) { int r = ND_INT(); V_ASSERT(b == addr.s && v_addr_fresh && v_addr_suffixed == 0, "C08: the policy check runs on the parsed recipient address"); if (r == 1) v_addr_allowed = 1; return r == 1 ? 1 : r == -1 ? -1 : 0; }
size_t strlen(const char *s) { return ND_UINT() % 1000; }

/* ---- environment of smtp_data ---- */
int d_opened, d_open_failed, d_received, d_blasted, d_failed_before_from, d_from, d_put, d_closed, d_hops, d_accepted, d_failcalled;
char d_qqx[4];
int qmail_open(struct qmail *q) { V_ASSERT(q == &qqt, "C07: supporting"); if (ND_BOOL()) { d_open_failed = 1; return -1; } d_opened = 1; return 0; }
unsigned long qmail_qp(struct qmail *q) { return ND_ULONG(); }
void received(struct qmail *q, char *a, char *b, char *c, char *d, char *e, char *f) { V_ASSERT(d_opened && !d_blasted, "C07: the Received field precedes the body"); d_received = 1; }
void qmail_fail(struct qmail *q) { d_failcalled = 1; if (!d_from) d_failed_before_from = 1; }
void qmail_from(struct qmail *q, char *s)
{
  V_ASSERT(d_received && d_blasted, "C07: the envelope follows the complete message");
  V_ASSERT(s == mailfrom.s, "C08: the message is submitted with the sender of the most recent MAIL");
  d_from = 1;
}
void qmail_put(struct qmail *q, char *s, size_t len)
{
  V_ASSERT(d_from && !d_put, "C07: supporting: recipients follow the sender, once");
  V_ASSERT(s == rcptto.s && (unsigned)len == rcptto.len, "C08: the message is submitted with exactly the recipient records accepted since that MAIL");
  d_put = 1;
}
char *qmail_close(struct qmail *q)
{
  V_ASSERT(d_from && d_put, "C07: supporting: the envelope is complete before qmail_close");
  d_closed = 1;
  d_qqx[0] = ND_CHAR(); d_qqx[1] = ND_CHAR(); d_qqx[2] = 0; d_qqx[3] = 0;
  V_ASSUME(d_qqx[0] == 0 || d_qqx[0] == 'D' || d_qqx[0] == 'Z');   /* contract of qmail_close (proof qmail_close) */
  if (d_failcalled) V_ASSUME(d_qqx[0] != 0);                         /* qmail_fail => never "" (proofs qmail_put, qmail_close) */
  return d_qqx;
}
void substdio_fdbuf(substdio *s, ssize_t (*op)(), int fd, char *b, int len)
{ V_ASSERT(s != &ssin, "C05: the connection's input buffer is never reset: bytes that follow CR LF . CR LF are the next command"); }

static void init(void)
{
  seenmail = ND_BOOL(); flagbarf = ND_BOOL();
  v_nrcpt = ND_INT(); V_ASSUME(0 <= v_nrcpt && v_nrcpt <= 1000000);
  v_rstate = 0; v_rcpt_touched = 0; v_from_set = 0; v_addr_fresh = 0; v_addr_suffixed = 0; v_addr_allowed = 0; v_bmf = 0;
  v_reply = 0; v_last = 0; v_nreplies = 0;
  rcptto.s = buf_rcptto; rcptto.len = v_nrcpt ? 2 * (unsigned)v_nrcpt + 1 : 0; rcptto.a = 8;
  mailfrom.s = buf_mailfrom; mailfrom.len = 1; mailfrom.a = 8;
  addr.s = buf_addr; addr.len = ND_UINT(); addr.a = 8;
  helohost.s = buf_helo; helohost.len = 1; helohost.a = 8;
  relayclient = ND_BOOL() ? "@relay" : 0;
  remotehost = "unknown";
  g_arg[0] = ND_CHAR(); g_arg[1] = ND_CHAR(); g_arg[2] = ND_CHAR(); g_arg[3] = 0;
  d_opened = d_open_failed = d_received = d_blasted = d_failed_before_from = d_from = d_put = d_closed = d_accepted = d_failcalled = 0;
  databytes = ND_UINT(); V_ASSUME(databytes + 1 != 0);   /* setup() guarantees databytes + 1 != 0 */
}

void h_reset_verbs(void)
{
  int which = ND_INT(), n0;
  init(); n0 = v_nrcpt;
  if (which == 0) smtp_helo(g_arg); else if (which == 1) smtp_ehlo(g_arg); else smtp_rset(g_arg);
  V_ASSERT(seenmail == 0, "C08: HELO, EHLO and RSET discard the transaction (a later DATA without a new MAIL is refused)");
  V_ASSERT(!v_rcpt_touched && v_nrcpt == n0 && !v_from_set, "C08: supporting: HELO/EHLO/RSET do not add recipients or change the sender");
  V_ASSERT(v_reply == 250, "C08: supporting: HELO/EHLO/RSET answer 250");
}

void h_mail(void)
{
  int seen0, barf0, n0;
  init(); seen0 = seenmail; barf0 = flagbarf; n0 = v_nrcpt;
  smtp_mail(g_arg);
  if (!g_parse_ok) {
    V_ASSERT(seenmail == seen0 && flagbarf == barf0 && !v_rcpt_touched && !v_from_set, "C08: a MAIL with a syntax error changes nothing");
    V_ASSERT(v_reply != 250, "C08: a MAIL with a syntax error is not answered 250");
  } else {
    V_ASSERT(seenmail == 1, "C08: MAIL opens a transaction");
    V_ASSERT(v_nrcpt == 0 && rcptto.len == 0 && v_rcpt_touched, "C08: a new MAIL discards the recipients of any earlier transaction");
    V_ASSERT(v_from_set == 2, "C08: the envelope sender becomes the address of this MAIL command");
    V_ASSERT(flagbarf == v_bmf, "C08: the bad-sender verdict is that of this MAIL command's address");
    V_ASSERT(v_reply == 250 && v_nreplies == 1, "C08: supporting: MAIL answers 250 once");
  }
  V_COVER(g_parse_ok && flagbarf);
}

void h_rcpt(void)
{
  int seen0, barf0, n0;
  init(); seen0 = seenmail; barf0 = flagbarf; n0 = v_nrcpt;
  smtp_rcpt(g_arg);
  V_ASSERT(seenmail == seen0 && flagbarf == barf0 && !v_from_set, "C08: RCPT changes neither the sender nor the transaction flags");
  V_ASSERT(v_rstate == 0, "C08: recipient records are complete");
  if (v_reply == 250) {
    V_ASSERT(v_nrcpt == n0 + 1, "C08: a recipient answered 250 is added exactly once");
    V_ASSERT(seen0 && g_parse_ok && !barf0, "C08: a recipient is accepted only after MAIL, with valid syntax and length, and never from a bad sender");
  } else
    V_ASSERT(v_nrcpt == n0 && !v_rcpt_touched, "C08: a recipient not answered 250 is not added");
  V_ASSERT(v_nreplies == 1, "C08: supporting: exactly one reply per RCPT");
  V_COVER(v_reply == 250 && relayclient != 0); V_COVER(v_reply == 250 && relayclient == 0); V_COVER(v_reply == 553);
}

void h_data(void)
{
  int seen0, n0; unsigned bto;
  init(); seen0 = seenmail; n0 = v_nrcpt;
  smtp_data(g_arg);
  if (d_opened) {
    V_ASSERT(seen0 && n0 > 0, "C08: a message is submitted only after MAIL and at least one accepted RCPT of the same transaction");
    V_ASSERT(d_closed, "C07: supporting: an opened submission is always closed");
    V_ASSERT(d_accepted == (d_qqx[0] == 0), "C07: the positive acknowledgement is sent if and only if qmail_close reported the message queued");
    V_ASSERT(!(d_hops >= 100) || d_failed_before_from, "C07: a message with 100 or more Received/Delivered-To fields is failed before its envelope is written");
    if (!d_accepted) {
      if (d_hops >= 100) V_ASSERT(v_last == 554, "C07: too many hops is a permanent failure");
      else if (databytes && !bytestooverflow) V_ASSERT(v_last == 552, "C07: exceeding the size limit is a permanent failure");
      else V_ASSERT(v_last == (d_qqx[0] == 'D' ? 554 : 451), "C07: queue failures are answered 554 (permanent) or 451 (temporary) by their class");
    }
  } else {
    V_ASSERT(!d_accepted, "C07: no acknowledgement without a submission");
  }
  if (seen0 && n0 > 0) V_ASSERT(seenmail == 0, "C08: a completed or attempted DATA discards the transaction");
  V_ASSERT(!v_rcpt_touched && !v_from_set, "C08: supporting: DATA does not edit the envelope");
  V_COVER(d_accepted); V_COVER(v_last == 552); V_COVER(v_last == 451); V_COVER(v_reply == 503);
}
