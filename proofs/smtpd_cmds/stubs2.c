/* bodies for functions of qmail-smtpd.c replaced in the handler proofs */
#include "verif.h"
#include "stralloc.h"
extern unsigned g_addr_len0;
extern int v_last;
extern int v_addr_fresh, v_bmf, v_reply, v_nreplies, g_parse_ok, v_addr_suffixed, v_addr_allowed;
extern int d_opened, d_received, d_blasted, d_hops, d_accepted, d_closed;
extern char d_qqx[4];
extern stralloc addr;
extern char g_arg[4];
extern unsigned int bytestooverflow, databytes;

int addrparse(char *arg)
{
  V_ASSERT(arg == g_arg, "C08: the address is parsed from this command's argument");
  v_addr_suffixed = 0; v_addr_allowed = 0;
  if (ND_BOOL()) { g_parse_ok = 0; v_addr_fresh = 0; return 0; }   /* syntax error or longer than 900 bytes (proof smtpd_addrparse) */
  g_parse_ok = 1; v_addr_fresh = 1;
  addr.len = 1 + ND_UINT() % 900;
  g_addr_len0 = addr.len;
  return 1;
}
int bmfcheck(void) { V_ASSERT(v_addr_fresh, "C08: supporting: bmfcheck after a successful parse"); v_bmf = ND_BOOL(); return v_bmf; }
static void reply(const char *s)
{
  if (s[0] >= '0' && s[0] <= '9' && s[1] >= '0' && s[1] <= '9' && s[2] >= '0' && s[2] <= '9') {
    int code = (s[0] - '0') * 100 + (s[1] - '0') * 10 + (s[2] - '0');
    if (!v_nreplies) v_reply = code;
    v_last = code;
    ++v_nreplies;
  }
}
void out(char *s) { reply(s); }
void smtp_greet(char *code) { reply(code); }
void die_nomem(void) { V_ASSUME(0); }
void die_control(void) { V_ASSUME(0); }
void acceptmessage(unsigned long qp) { V_ASSERT(d_closed && d_qqx[0] == 0, "C07: the positive acknowledgement is sent only after qmail_close reported success"); d_accepted = 1; v_last = 250; ++v_nreplies; }
void blast(int *hops)
{
  V_ASSERT(d_opened && d_received, "C07: the body follows the Received field of an opened submission");
  V_ASSERT(v_reply == 354, "C08: supporting: 354 before the body is read");
  d_blasted = 1;
  d_hops = ND_INT(); V_ASSUME(d_hops >= 0);
  *hops = d_hops;
  /* put() trips qmail_fail exactly when the limit is exceeded (proof smtpd_put): bytestooverflow ends 0 iff too large */
  if (databytes) bytestooverflow = ND_BOOL() ? 0 : 1 + ND_UINT() % 1000;
}
