C = dict(units=["harness.c", "stubs2.c"], mode="plain", timeout=300,
         remove_bodies={"harness.c": ["addrparse", "bmfcheck", "out", "smtp_greet", "die_nomem", "die_control", "acceptmessage", "blast"]},
         replaced=["addrparse (proof smtpd_addrparse), bmfcheck, rcpthosts (proof rcpthosts), stralloc_copys/cats/append (recording stubs; "
                   "contracts proved in the stralloc proofs), qmail_* (proofs qmail_close/qmail_put/qmail_from), blast (proof smtpd_blast), "
                   "received (proof received), out/smtp_greet (reply recorder)"],
         assumptions=["C08: the transaction view (seenmail, flagbarf, number of complete recipient records) is arbitrary at the start of each "
                      "command; sequences follow by induction over commands",
                      "C07: qmail_close returns \"\", D... or Z..., and never \"\" after qmail_fail (proved in qmail_close/qmail_put)"])
PROOFS = [
    dict(C, name="smtpd_resets", properties=["C08"], entry="h_reset_verbs", min_tagged=3,
         title="qmail-smtpd.c smtp_helo/smtp_ehlo/smtp_rset: transaction discarded", functions=["qmail-smtpd.c:smtp_helo", "qmail-smtpd.c:smtp_ehlo", "qmail-smtpd.c:smtp_rset", "qmail-smtpd.c:dohelo"],
         covers=False,
         canaries=[dict(name="rset-keeps-transaction", file="qmail-smtpd.c", literal=True, pattern="  seenmail = 0;\n  out(\"250 flushed\\r\\n\");", repl="  out(\"250 flushed\\r\\n\");", expect=r"C08: HELO, EHLO and RSET")]),
    dict(C, name="smtpd_mail", properties=["C08"], entry="h_mail", min_tagged=6,
         title="qmail-smtpd.c smtp_mail: new transaction, recipients discarded, sender and bad-sender verdict from this command", functions=["qmail-smtpd.c:smtp_mail"],
         canaries=[dict(name="mail-keeps-old-recipients", file="qmail-smtpd.c", literal=True, pattern='  if (!stralloc_copys(&rcptto,"")) die_nomem();\n', repl='', expect=r"C08: a new MAIL discards"),
                   dict(name="mail-changes-state-on-syntax-error", file="qmail-smtpd.c", literal=True, pattern="  if (!addrparse(arg)) { err_syntax(); return; }\n  flagbarf = bmfcheck();", repl="  seenmail = 0; if (!addrparse(arg)) { err_syntax(); return; }\n  flagbarf = bmfcheck();", expect=r"C08: a MAIL with a syntax error changes nothing")]),
    dict(C, name="smtpd_rcpt", properties=["C08"], entry="h_rcpt", min_tagged=8,
         title="qmail-smtpd.c smtp_rcpt: a recipient record is added iff answered 250, only after MAIL, not from a bad sender, relay suffix or rcpthosts", functions=["qmail-smtpd.c:smtp_rcpt", "qmail-smtpd.c:addrallowed"],
         canaries=[dict(name="rcpt-without-mail", file="qmail-smtpd.c", literal=True, pattern="  if (!seenmail) { err_wantmail(); return; }\n  if (!addrparse(arg)) { err_syntax(); return; }\n  if (flagbarf)", repl="  if (!addrparse(arg)) { err_syntax(); return; }\n  if (flagbarf)", expect=r"C08: a recipient is accepted only after MAIL"),
                   dict(name="relay-suffix-without-removing-nul", file="qmail-smtpd.c", literal=True, pattern="    --addr.len;\n", repl="", expect=r"C08: only the RELAYCLIENT suffix"),
                   dict(name="badmailfrom-ignored", file="qmail-smtpd.c", literal=True, pattern="  if (flagbarf) { err_bmf(); return; }\n", repl="", expect=r"C08: a recipient is accepted only after MAIL")]),
    dict(C, name="smtpd_data", properties=["C08", "C07", "C05"], entry="h_data", min_tagged=10,
         title="qmail-smtpd.c smtp_data: submission only with MAIL+RCPT, exact envelope, 250 iff queued, reply classes, input buffer not reset", functions=["qmail-smtpd.c:smtp_data"],
         canaries=[dict(name="data-without-rcpt", file="qmail-smtpd.c", literal=True, pattern="  if (!rcptto.len) { err_wantrcpt(); return; }\n", repl="", expect=r"C08: a message is submitted only after MAIL and at least one"),
                   dict(name="ack-regardless-of-close", file="qmail-smtpd.c", literal=True, pattern="  if (!*qqx) { acceptmessage(qp); return; }", repl="  if (*qqx != 'D') { acceptmessage(qp); return; }", expect=r"C07"),
                   dict(name="hops-off-by-one", file="qmail-smtpd.c", literal=True, pattern="hops = (hops >= MAXHOPS);", repl="hops = (hops > MAXHOPS);", expect=r"C07: a message with 100 or more"),
                   dict(name="data-keeps-transaction", file="qmail-smtpd.c", literal=True, pattern="  seenmail = 0;\n  if (databytes) bytestooverflow = databytes + 1;", repl="  if (databytes) bytestooverflow = databytes + 1;", expect=r"C08: a completed or attempted DATA")]),
]
