/* stub bodies for functions that are defined in qmail-clean.c itself (their bodies are removed from the
 * compiled unit with goto-instrument --remove-function-body and these are linked instead) */
#include "verif.h"
#include "stralloc.h"
extern stralloc line;
/* cleanuppid() is proved on its own (proofs/clean_pid); here: it may rewrite `line` */
void cleanuppid(void) { line.len = 0; }
