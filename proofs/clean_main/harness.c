/* C18 / C02: qmail-clean.c main() - the real file is compiled unmodified into this unit.
 *
 * Environment: getln() is the request oracle (hands out one arbitrary NUL-terminated request and
 * classifies it from the property text), fmtqfn() records which queue file name was formatted into
 * which buffer, unlink() and substdio_putflush() carry the obligations.
 */
#include "verif.h"
#include "qmail-clean.c"

#define LBUF 256

char g_linebuf[LBUF];
int g_pending;        /* a request has been handed out and not yet been replaced by the next one */
int g_answered;       /* status bytes sent for the pending request */
int g_req_ok;         /* oracle: pending request is  ("foop/"|"todo/") digit+ NUL  */
int g_kind;           /* 1 foop/, 2 todo/, 0 neither */
int g_bad;            /* index of the first non-digit at or after position 5 (the NUL if all digits), -1 if len < 6 */
unsigned long g_V;    /* abstract decimal value of the digit run starting at position 5 (scan_ulong contract) */
unsigned g_len;
int g_unlinks;        /* unlink calls made for the pending request */
int g_unlink_failed;  /* an unlink for the pending request failed with something other than ENOENT */
int g_fn_valid, g_fn_dir, g_fn_split; /* what fnbuf currently holds: dir 1 intd/, 2 mess/, 3 todo/, 0 other */
unsigned long g_fn_id;
int g_in_cleanuppid;
int g_eof;

#define isdig(c) ((c) >= 48 && (c) <= 57)

static void check_answered(void)
{
  V_ASSERT(!g_pending || g_answered == 1, "C18: every request is answered with exactly one status byte before the next one is read");
}

int getln(substdio *ss, stralloc *sa, int *match, int sep)
{
  unsigned len;
  int r;
  V_ASSERT(ss == subfdinsmall && sa == &line && sep == 0, "C18: requests are read from descriptor 0 up to a NUL");
  check_answered();
  g_pending = 0; g_answered = 0; g_unlinks = 0; g_unlink_failed = 0; g_req_ok = 0; g_kind = 0; g_bad = -1;
  r = ND_INT();
  if (g_eof || r == 1) { g_eof = 1; *match = 0; sa->s = g_linebuf; sa->a = LBUF; sa->len = 0; return 0; }
  if (r == 2) { V_HAVOC_ERRNO(); return -1; }
  len = ND_UINT();
  V_ASSUME(1 <= len && len <= LBUF - 1); /* domain restriction: requests of at most 255 bytes */
#if defined(VERIF_CE) || defined(VERIF_NATIVE)
  {
    unsigned k;
    for (k = 0; k + 1 < len; ++k) { g_linebuf[k] = ND_CHAR(); V_ASSUME(g_linebuf[k] != 0); V_INPUT_BYTE(g_linebuf[k]); }
    g_linebuf[len - 1] = 0; V_INPUT_BYTE(0);
    g_bad = -1;
    if (len >= 6) { for (k = 5; k < len; ++k) if (!isdig(g_linebuf[k])) { g_bad = k; break; } }
  }
#else
  __CPROVER_havoc_object(g_linebuf);
  g_bad = ND_INT();
  if (len >= 6) V_ASSUME(5 <= g_bad && g_bad <= (int)len - 1); else g_bad = -1;
  /* a line handed out by getln ends at the first NUL; g_bad is the first non-digit from position 5 on */
  V_ASSUME(g_linebuf[len - 1] == 0);
  V_ASSUME(__CPROVER_forall { unsigned k; (k < LBUF) ==> ((k + 1 < len) ==> g_linebuf[k] != 0) });
  V_ASSUME(__CPROVER_forall { unsigned k; (k < LBUF) ==> ((5 <= k && (int)k < g_bad) ==> isdig(g_linebuf[k])) });
  if (g_bad >= 0) V_ASSUME(!isdig(g_linebuf[g_bad]));
#endif
  g_len = len;
  if (len >= 5) {
    if (g_linebuf[0] == 'f' && g_linebuf[1] == 'o' && g_linebuf[2] == 'o' && g_linebuf[3] == 'p' && g_linebuf[4] == '/') g_kind = 1;
    if (g_linebuf[0] == 't' && g_linebuf[1] == 'o' && g_linebuf[2] == 'd' && g_linebuf[3] == 'o' && g_linebuf[4] == '/') g_kind = 2;
  }
  g_req_ok = g_kind != 0 && len >= 7 && g_bad == (int)len - 1;
  g_V = ND_ULONG();
  if (g_bad == 5) g_V = 0;
  sa->s = g_linebuf; sa->a = LBUF; sa->len = len;
  *match = 1;
  g_pending = 1;
  V_COVER(g_req_ok && g_kind == 1);
  V_COVER(g_req_ok && g_kind == 2);
  V_COVER(!g_req_ok && len >= 7 && len <= 100);
  return 0;
}

/* scan_ulong through its contract (proved in proofs/scan_ulong): number of leading digits, their decimal value */
unsigned int scan_ulong(char *s, unsigned long *u)
{
  if (g_pending && g_bad >= 5 && s == g_linebuf + 5) { *u = g_V; return (unsigned)(g_bad - 5); }
  *u = ND_ULONG();
  return ND_UINT();
}

unsigned int fmtqfn(char *s, char *dirslash, unsigned long id, int flagsplit)
{
  V_ASSERT(s == fnbuf, "C18: queue file names are formatted into fnbuf only");
  __CPROVER_havoc_object(fnbuf);
  g_fn_valid = 1; g_fn_id = id; g_fn_split = flagsplit; g_fn_dir = 0;
  if (dirslash[0] == 'i' && dirslash[1] == 'n' && dirslash[2] == 't' && dirslash[3] == 'd' && dirslash[4] == '/' && !dirslash[5]) g_fn_dir = 1;
  if (dirslash[0] == 'm' && dirslash[1] == 'e' && dirslash[2] == 's' && dirslash[3] == 's' && dirslash[4] == '/' && !dirslash[5]) g_fn_dir = 2;
  if (dirslash[0] == 't' && dirslash[1] == 'o' && dirslash[2] == 'd' && dirslash[3] == 'o' && dirslash[4] == '/' && !dirslash[5]) g_fn_dir = 3;
  return ND_UINT();
}

int unlink(const char *path)
{
  int r;
  V_ASSERT(!g_in_cleanuppid, "C18: supporting: cleanuppid is replaced in this proof");
  V_ASSERT(g_pending && g_req_ok, "C18: a queue file is removed only for a pending request of the form (foop/|todo/) digits NUL");
  V_ASSERT(g_answered == 0, "C18: nothing is removed after the request has been answered");
  V_ASSERT(path == fnbuf && g_fn_valid, "C18: unlink is called only on the name just formatted by fmtqfn");
  V_ASSERT(g_fn_id == g_V, "C18: the file removed belongs to the decimal message number named in the request");
  V_ASSERT(!g_unlink_failed, "C18: the request is abandoned at the first unlink that fails (other than ENOENT)");
  if (g_unlinks == 0)
    V_ASSERT(g_fn_dir == 1 && g_fn_split == 0, "C02: the first file removed for a request is intd/<id> (unsplit)");
  else if (g_unlinks == 1) {
    if (g_kind == 1) V_ASSERT(g_fn_dir == 2 && g_fn_split == 1, "C18: foop/ removes intd/<id> then mess/<split>/<id> and nothing else");
    else V_ASSERT(g_fn_dir == 3 && g_fn_split == 0, "C18: todo/ removes intd/<id> then todo/<id> and nothing else");
  }
  else V_ASSERT(0, "C18: at most two files are removed per request");
  ++g_unlinks;
  g_fn_valid = 0;
  r = ND_INT();
  V_HAVOC_ERRNO();
  if (r == 0) return 0;
  if (errno != ENOENT) g_unlink_failed = 1;
  return -1;
}

int substdio_putflush(substdio *s, const char *buf, size_t len)
{
  V_ASSERT(s == subfdoutsmall && len == 1, "C18: a response is one status byte on descriptor 1");
  V_ASSERT(g_pending, "C18: a status byte is sent only in answer to a request");
  V_ASSERT(g_answered == 0, "C18: exactly one status byte per request");
  if (buf[0] == '+')
    V_ASSERT(g_req_ok && g_unlinks == 2 && !g_unlink_failed, "C18: '+' only for a well-formed request whose two files are gone");
  else if (buf[0] == 'x')
    V_ASSERT(g_unlinks == 0, "C18: a rejected request changes nothing");
  else if (buf[0] == '!')
    V_ASSERT(g_unlink_failed, "C18: '!' only after an unlink failed");
  else V_ASSERT(0, "C18: status byte is one of + x !");
  V_COVER(buf[0] == '+');
  V_COVER(buf[0] == 'x');
  V_COVER(buf[0] == '!');
  ++g_answered;
  if (ND_BOOL()) { V_HAVOC_ERRNO(); return -1; }
  return 0;
}

int chdir(const char *p) { int r = ND_INT(); V_HAVOC_ERRNO(); return r == 0 ? 0 : -1; }
void sig_pipeignore(void) {}
int stralloc_ready(stralloc *sa, unsigned int n)
{
  /* contract of stralloc_ready (proofs/stralloc_ready): on success at least n bytes */
  if (ND_BOOL()) { V_HAVOC_ERRNO(); return 0; }
  sa->s = g_linebuf; sa->a = LBUF; sa->len = 0;
  return 1;
}
void _exit(int code)
{
  V_ASSERT(code == 100, "C18: supporting: the only _exit in qmail-clean is 100 after a failed response");
  V_ASSUME(0);
}

void harness(void)
{
  int r;
  /* initial values the whole-program proof relies on (DFCC makes statics nondeterministic) */
  g_pending = 0; g_answered = 0; g_eof = 0; g_fn_valid = 0; g_in_cleanuppid = 0; g_unlinks = 0; g_unlink_failed = 0;
  line.s = 0; line.len = 0; line.a = 0;
  r = main();
  check_answered();
  V_COVER(r == 0);
}
