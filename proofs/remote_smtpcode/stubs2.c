#include "verif.h"
void temp_nomem(void) { V_ASSUME(0); }
