/* C09: qmail-remote.c smtpcode()/get() - parsing of (multi-line) SMTP replies, for every byte stream of the server. */
#include "verif.h"
#include "qmail-remote.c"

int g_pos;        /* position in the current reply line (saturating at 4) */
int g_cont;       /* the current line is a continuation line (its 4th byte is '-') */
int g_done;       /* the LF of the final line has been read */
int g_first;      /* still in the first line */
unsigned long g_d0, g_d1, g_d2;   /* the three leading bytes of the first line, minus '0' (as the code computes them) */
ssize_t substdio_get(substdio *s, char *b, size_t n)
{
  unsigned char c = ND_UCHAR();
  V_ASSERT(s == &smtpfrom && n == 1, "C09: supporting: replies are read one byte at a time");
  V_ASSERT(!g_done, "C09: nothing is read beyond the line that ends the reply (the next reply belongs to the next command)");
  if (g_pos < 3) V_ASSUME(c != '\n');   /* domain restriction: every reply line carries its three code bytes */
  *b = (char)c;
  if (g_first && g_pos == 0) g_d0 = (unsigned long)c - '0';
  if (g_first && g_pos == 1) g_d1 = (unsigned long)c - '0';
  if (g_first && g_pos == 2) g_d2 = (unsigned long)c - '0';
  if (g_pos == 3) g_cont = (c == '-');
  if (c == '\n') {
    /* the code treats a line as a continuation only if it has at least four bytes and the fourth is '-' */
    if (g_pos >= 4 && g_cont) { g_pos = 0; g_cont = 0; g_first = 0; }   /* continuation line ended: next line follows */
    else g_done = 1;                                                   /* final line ended */
    return 1;
  }
  if (g_pos < 4) ++g_pos;
  return 1;   /* saferead exits through dropped() on EOF, error or timeout */
}
int stralloc_copys(stralloc *sa, char *s) { sa->len = 0; return 1; }
int stralloc_append(stralloc *sa, char *c) { V_ASSERT(sa == &smtptext && sa->len < HUGESMTPTEXT, "C09,C20: the remembered reply text is bounded"); ++sa->len; return 1; }
void harness(void)
{
  unsigned long code;
  g_pos = 0; g_cont = 0; g_done = 0; g_first = 1; smtptext.len = 0;
  code = smtpcode();
  V_ASSERT(g_done, "C09: a reply is complete only at the end of a line whose fourth byte is not '-' (multi-line replies are read to their last line)");
  V_ASSERT(code == g_d0 * 100 + g_d1 * 10 + g_d2, "C09: the reply code is the three-digit code at the start of the reply");
  V_ASSERT(smtptext.len <= HUGESMTPTEXT, "C09,C20: the remembered reply text is bounded");
  V_COVER(!g_first); V_COVER(code == 250);
}
