GH = "g_pos, g_cont, g_done, g_first, g_d0, g_d1, g_d2, smtptext.len"
PROOF = dict(
    name="remote_smtpcode", slow=True, properties=["C09"], units=["harness.c", "stubs2.c"], mode="dfcc", remove_bodies={"harness.c": ["temp_nomem"]}, timeout=300, min_tagged=4,
    loops=[
        dict(function="smtpcode", head="for (;;) {", invariants="!g_done && g_pos == 3 && smtptext.len <= 5000 && code == g_d0 * 100 + g_d1 * 10 + g_d2", assigns="ch, " + GH, symbols=["ch", "code"]),
        dict(function="smtpcode", head="while (ch != '\\n') get(&ch);", nth=0, invariants="!g_done && (ch != 10 ? (g_pos == 4 && g_cont) : (g_pos == 0 && !g_cont && !g_first)) && smtptext.len <= 5000 && code == g_d0 * 100 + g_d1 * 10 + g_d2", assigns="ch, " + GH, symbols=["ch", "code"]),
        dict(function="smtpcode", head="while (ch != '\\n') get(&ch);", nth=1, invariants="smtptext.len <= 5000 && code == g_d0 * 100 + g_d1 * 10 + g_d2 && (g_done == (ch == 10)) && (g_done || (g_pos == 4 && !g_cont))", assigns="ch, " + GH, symbols=["ch", "code"]),
    ],
    title="qmail-remote.c smtpcode()/get(): code of the reply, multi-line replies read exactly to the end of their last line, remembered text bounded, for every byte stream",
    functions=["qmail-remote.c:smtpcode", "qmail-remote.c:get"],
    assumptions=["C09: the first three bytes of a reply are taken as digits without validation (the code computes (c-'0') on whatever arrives; the obligation states exactly that formula)",
                 "C09: reply lines carry at least their three code bytes before LF (a LF among them is outside the proof's input domain; the code does not look for it)"],
    canaries=[dict(name="space-line-treated-as-continuation", file="qmail-remote.c", literal=True, pattern="    if (ch != '-') break;", repl="    if (ch != '-' && ch != ' ') break;", expect=r"."),
              dict(name="text-limit-removed", file="qmail-remote.c", literal=True, pattern="    if (smtptext.len < HUGESMTPTEXT)\n", repl="", expect=r"C09,C20")],
)
