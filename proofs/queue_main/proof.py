GH = ("g_env, g_n, g_env_eof, g_pending, g_byte, g_mess, g_intd, g_todo, g_dirty_intd, g_synced_intd, g_write_failed, g_read_failed, "
      "g_unlink_intd_failed, g_unlink_mess_failed, g_trunc_intd, g_trunc_mess, g_cleanup_started, g_exit_code, __CPROVER_errno")
F = ("g_alarm == 86400 && g_mess == 1 && g_intd == 1 && g_todo == 0 && !g_dirty_mess && g_synced_mess && g_recv_written && g_msg_complete"
     " && flagmademess == 1 && flagmadeintd == 1 && ssout.fd == 7 && ssin.fd == 1 && intdfd == 7 && messfd == 5 && !g_env_eof && !g_cleanup_started"
     " && !g_write_failed && !g_read_failed && !g_pending && g_exit_code == -1"
     " && intdfn == g_fn_intd && messfn == g_fn_mess && todofn == g_fn_todo && g_fn_intd != 0 && g_fn_mess != 0 && g_fn_todo != 0")
def addrloop(nth, st):
    return dict(function="main", head="for (len = 0;len < ADDR;++len)", nth=nth,
                invariants=F + " && len <= 1003 && ((len < 1003 && g_env == %d && (unsigned)g_n == len) || (len == 1003 && g_env == 6))" % st,
                assigns="len, ch, " + GH, decreases="1003 - len", symbols=["len", "ch"])
PROOFS = [
  dict(name="queue_main", properties=["C01", "C02", "C16"],
    title="qmail-queue.c main(): publication only of a complete, flushed, fsynced message and envelope; exit-code map; cleanup order; any fault at any call",
    functions=["qmail-queue.c:main", "qmail-queue.c:cleanup", "qmail-queue.c:die_write", "qmail-queue.c:die_read", "qmail-queue.c:pidopen", "qmail-queue.c:pidfmt",
               "qmail-queue.c:fnnum", "qmail-queue.c:receivedfmt", "qmail-queue.c:received_setup"],
    units=["harness.c", "repo:substdio.c"], mode="dfcc", entry="harness",
    unwindset=[dict(function="pidopen", head="for (seq = 1;seq < 10;++seq)", bound=10)],
    loops=[
        addrloop(0, 1),
        dict(function="main", head="for (;;)", invariants=F + " && g_env == 2", assigns="len, ch, " + GH, symbols=["len", "ch"]),
        addrloop(1, 3),
    ],
    min_tagged=25, timeout=900,
    ce=dict(mode="plain", unwind=6), native=dict(),
    replaced=["substdio_put/bput/flush/copy/get (count level, above the oneread/allwrite boundary)", "fmt_str/fmt_ulong/fmtqfn/date822fmt (length = uninterpreted function of the arguments)",
              "open_excl, link, unlink, ftruncate, fsync, fstat, alarm, chdir, getpid/getuid, now, inituid, sig_*, triggerpull, _exit (environment, each may fail)"],
    assumptions=["C01: directory operations are synchronous and fsync is honest (conf-qmail's requirement on the queue file system)",
                 "C01: byte-exact content of the message copy rests on the substdio_copy/substdio_put contracts (count level here)"],
    canaries=[
        dict(name="fsync-mess-removed", file="qmail-queue.c", literal=True, pattern=" if (fsync(messfd) == -1) die_write();\n", repl="", expect=r"C01"),
        dict(name="flush-after-fsync", file="qmail-queue.c", literal=True, pattern=" if (substdio_flush(&ssout) == -1) die_write();\n if (fsync(messfd) == -1) die_write();", repl=" if (fsync(messfd) == -1) die_write();\n if (substdio_flush(&ssout) == -1) die_write();", expect=r"C01"),
        dict(name="eof-at-record-boundary-accepted", file="qmail-queue.c", literal=True, pattern="   if (substdio_get(&ssin,&ch,1) < 1) die_read();\n   if (!ch) break;", repl="   if (substdio_get(&ssin,&ch,1) == -1) die_read();\n   if (!ch) break;", expect=r"."),
        dict(name="addr-limit-off-by-one", file="qmail-queue.c", literal=True, pattern=" if (len >= ADDR) die(11);\n\n if (substdio_bput(&ssout,QUEUE_EXTRA", repl=" if (len > ADDR) die(11);\n\n if (substdio_bput(&ssout,QUEUE_EXTRA", expect=r"."),
        dict(name="cleanup-mess-before-intd", file="qmail-queue.c", literal=True,
             pattern=" if (flagmadeintd)\n  {\n   seek_trunc(intdfd,0);\n   if (unlink(intdfn) == -1) return;\n  }\n if (flagmademess)\n  {\n   seek_trunc(messfd,0);\n   if (unlink(messfn) == -1) return;\n  }",
             repl=" if (flagmademess)\n  {\n   seek_trunc(messfd,0);\n   if (unlink(messfn) == -1) return;\n  }\n if (flagmadeintd)\n  {\n   seek_trunc(intdfd,0);\n   if (unlink(intdfn) == -1) return;\n  }", expect=r"C02: mess/<id> is removed only after"),
        dict(name="trigger-before-link", file="qmail-queue.c", literal=True, pattern=" if (link(intdfn,todofn) == -1) die(66);\n\n triggerpull();", repl=" triggerpull();\n if (link(intdfn,todofn) == -1) die(66);\n", expect=r"C16"),
    ]),
  dict(name="queue_sigalrm", properties=["C01", "C02"], entry="h_sigalrm", units=["harness.c"], mode="plain", covers=False, min_tagged=3,
    title="qmail-queue.c sigalrm(): the 24 h timeout exits 52 without touching the queue (files are left for the daemon's 36 h collection)",
    functions=["qmail-queue.c:sigalrm", "qmail-queue.c:die"],
    canaries=[dict(name="cleanup-in-sigalrm", file="qmail-queue.c", literal=True, pattern="{ /* thou shalt not clean up here */ die(52); }", repl="{ cleanup(); die(52); }", expect=r".")]),
]
