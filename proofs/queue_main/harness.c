/* C01 (+C02 inode=name, C16 P1): qmail-queue.c main() as a system-call protocol.  The real file is compiled unmodified;
 * every environment call may fail; ghost state records which queue files exist, what has been flushed and fsynced,
 * and where the envelope stream stands in the grammar  F addr NUL (T addr NUL)* NUL. */
#include "verif.h"
#include <errno.h>
#include "qmail-queue.c"

enum { E_START, E_SENDER, E_NEXT, E_RCPT, E_DONE, E_BAD, E_LONG };
int g_env, g_n, g_env_eof;           /* envelope recogniser */
int g_pending; char g_byte;          /* an envelope byte has been read and not yet written to intd */
int g_mess, g_intd, g_todo, g_pid;   /* which files of this message exist */
int g_dirty_mess, g_dirty_intd, g_synced_mess, g_synced_intd;
int g_recv_written, g_msg_complete;  /* Received line handed to mess first; message copied up to EOF */
int g_write_failed, g_read_failed, g_alarm, g_triggered;
int g_unlink_intd_failed, g_unlink_mess_failed, g_trunc_intd, g_trunc_mess, g_cleanup_started;
int g_exit_code = -1;
int g_in_sigalrm;
int g_prefix_puts;
unsigned g_datelen;

#define MESSFD 5
#define INTDFD 7

/* ---- formatting: lengths are functions of the arguments (sizing and writing calls must agree) ---- */
#ifdef VERIF_NATIVE
static unsigned __CPROVER_uninterpreted_fmtstr(const char *t) { return strlen(t); }
static unsigned __CPROVER_uninterpreted_fmtulong(unsigned long u) { unsigned n = 1; while (u > 9) { ++n; u /= 10; } return n; }
static unsigned __CPROVER_uninterpreted_fmtqfn(const char *d, unsigned long u, int f) { return 30; }
#else
unsigned __CPROVER_uninterpreted_fmtstr(const char *);
unsigned __CPROVER_uninterpreted_fmtulong(unsigned long);
unsigned __CPROVER_uninterpreted_fmtqfn(const char *, unsigned long, int);
#endif
unsigned int fmt_str(char *s, char *t) { unsigned n = __CPROVER_uninterpreted_fmtstr(t); V_ASSUME(n <= 24); return n; }
unsigned int fmt_ulong(char *s, unsigned long u) { unsigned n = __CPROVER_uninterpreted_fmtulong(u); V_ASSUME(1 <= n && n <= 20); return n; }
unsigned int date822fmt(char *s, struct datetime *d) { return g_datelen; }
char *g_fn_mess, *g_fn_todo, *g_fn_intd;
unsigned int fmtqfn(char *s, char *dirslash, unsigned long id, int flagsplit)
{
  unsigned n = __CPROVER_uninterpreted_fmtqfn(dirslash, id, flagsplit);
  V_ASSUME(2 <= n && n <= 40);
  V_ASSERT(id == pidst.st_ino, "C02: the message number is the inode number of its mess file");
  if (s) {
    if (dirslash[0] == 'm') { V_ASSERT(flagsplit == 1, "C02: supporting: mess/ is split"); g_fn_mess = s; }
    else if (dirslash[0] == 't') { V_ASSERT(flagsplit == 0, "C02: supporting: todo/ is not split"); g_fn_todo = s; }
    else if (dirslash[0] == 'i') { V_ASSERT(flagsplit == 0, "C02: supporting: intd/ is not split"); g_fn_intd = s; }
    else V_ASSERT(0, "C01: supporting: unexpected queue directory");
  }
  return n;
}

/* ---- process environment ---- */
void sig_blocknone(void) {} void sig_pipeignore(void) {} void sig_miscignore(void) {}
void sig_alarmcatch(void (*f)()) {} void sig_bugcatch(void (*f)()) {}
mode_t umask(mode_t m) { return 0; }
int chdir(const char *p) { if (ND_BOOL()) { V_HAVOC_ERRNO(); return -1; } return 0; }
pid_t getpid(void) { return 4711; }
uid_t getuid(void) { return ND_UINT(); }
time_t time(time_t *t) { return ND_LONG(); }
void datetime_tai(struct datetime *d, datetime_sec t) {}
uid_t inituid(char *u) { return ND_UINT(); }
unsigned int alarm(unsigned int s) { g_alarm = (int)s; return 0; }

/* ---- file system ---- */
int open_excl(char *fn)
{
  V_ASSERT(g_alarm == 86400, "C01: the 24 h self-destruct alarm is armed before the first queue file is created");
  if (fn == pidfn) { if (ND_BOOL()) { V_HAVOC_ERRNO(); return -1; } g_pid = 1; return MESSFD; }
  V_ASSERT(fn == g_fn_intd && fn == intdfn, "C01: the only other file created is intd/<id>");
  V_ASSERT(g_mess && !g_intd && !g_todo, "C02: intd/<id> is created only while mess/<id> exists (S2 -> S3)");
  V_ASSERT(g_msg_complete && !g_dirty_mess && g_synced_mess, "C01: the envelope is started only after the message was written, flushed and fsynced");
  if (ND_BOOL()) { V_HAVOC_ERRNO(); return -1; }
  g_intd = 1; return INTDFD;
}
int fstat(int fd, struct stat *st) { if (ND_BOOL()) { V_HAVOC_ERRNO(); return -1; } V_ASSERT(fd == MESSFD, "C02: supporting: fstat of the new file"); st->st_ino = ND_ULONG(); return 0; }
int link(const char *a, const char *b)
{
  if (a == pidfn) {
    V_ASSERT(b == g_fn_mess && b == messfn && g_pid && !g_mess, "C02: the pid file is linked to mess/<split>/<inode> (S1 -> S2)");
    if (ND_BOOL()) { V_HAVOC_ERRNO(); return -1; }
    g_mess = 1; return 0;
  }
  V_ASSERT(a == g_fn_intd && a == intdfn && b == g_fn_todo && b == todofn, "C01: the only publication is link(intd/<id>, todo/<id>)");
  V_ASSERT(g_mess && g_intd && !g_todo, "C02: todo/<id> appears only while mess/<id> and intd/<id> exist (S3 -> S4)");
  V_ASSERT(g_recv_written && g_msg_complete && !g_dirty_mess && g_synced_mess, "C01: the message (Received line + all supplied bytes) is flushed and fsynced before publication");
  V_ASSERT(!g_dirty_intd && g_synced_intd, "C01: the envelope is flushed and fsynced before publication");
  V_ASSERT(g_env == E_DONE && !g_pending, "C01: only a complete envelope (sender, recipients, final NUL) is published, every byte of it written");
  V_ASSERT(!g_write_failed && !g_read_failed, "C01: nothing is published after a read or write failure");
  if (ND_BOOL()) { V_HAVOC_ERRNO(); return -1; }
  g_todo = 1; return 0;
}
int unlink(const char *p)
{
  V_ASSERT(!g_in_sigalrm, "C01,C02: the 24 h timeout handler changes nothing in the queue: leftovers are collected by the daemon after 36 h, and a message that is already published stays in S4");
  V_ASSERT(!g_todo, "C01: nothing is removed once the message is published");
  if (p == pidfn) { V_ASSERT(g_mess, "C02: the pid file is removed only after mess/<id> was linked"); if (ND_BOOL()) { V_HAVOC_ERRNO(); return -1; } g_pid = 0; return 0; }
  if (p == g_fn_intd && p == intdfn) {
    V_ASSERT(g_intd && g_trunc_intd, "C01: cleanup truncates intd/<id> before unlinking it");
    if (ND_BOOL()) { g_unlink_intd_failed = 1; V_HAVOC_ERRNO(); return -1; }
    g_intd = 0; return 0;
  }
  V_ASSERT(p == g_fn_mess && p == messfn, "C01: only this message's own files are removed");
  V_ASSERT(!g_intd, "C02: mess/<id> is removed only after intd/<id> is gone (S3 -> S2 -> S1)");
  V_ASSERT(g_trunc_mess, "C01: cleanup truncates mess/<id> before unlinking it");
  if (ND_BOOL()) { g_unlink_mess_failed = 1; V_HAVOC_ERRNO(); return -1; }
  g_mess = 0; return 0;
}
int ftruncate(int fd, off_t len)
{
  V_ASSERT(!g_in_sigalrm, "C01,C02: the 24 h timeout handler changes nothing in the queue: leftovers are collected by the daemon after 36 h, and a message that is already published stays in S4");
  g_cleanup_started = 1;
  V_ASSERT(!g_todo, "C01: nothing is truncated once the message is published");
  if (fd == INTDFD) g_trunc_intd = 1; else if (fd == MESSFD) g_trunc_mess = 1;
  return ND_BOOL() ? -1 : 0;
}
int fsync(int fd)
{
  if (ND_BOOL()) { g_write_failed = 1; V_HAVOC_ERRNO(); return -1; }
  if (fd == MESSFD && !g_dirty_mess) g_synced_mess = 1;
  if (fd == INTDFD && !g_dirty_intd) g_synced_intd = 1;
  return 0;
}
void triggerpull(void) { V_ASSERT(g_todo, "C16: the trigger is pulled only after the message was published (publish, then signal)"); g_triggered = 1; }

/* ---- substdio above the oneread/allwrite boundary, count level ---- */
static void wrote(substdio *s) { if (s->fd == MESSFD) { g_dirty_mess = 1; g_synced_mess = 0; } else { g_dirty_intd = 1; g_synced_intd = 0; } }
static int v_put(substdio *s, const char *buf, size_t len)
{
  V_ASSERT(s == &ssout && (s->fd == MESSFD || s->fd == INTDFD), "C01: supporting: output goes to mess or intd");
  V_ASSERT(!g_cleanup_started, "C01: supporting: no write after cleanup started");
  if (s->fd == MESSFD) {
    if (!g_recv_written) { V_ASSERT(buf == received && (unsigned)len == receivedlen, "C01: the message file starts with this program's Received line"); g_recv_written = 1; }
    else V_ASSERT(0, "C01: after the Received line the message file receives exactly the supplied bytes (substdio_copy)");
  } else if (g_env == E_START && !g_pending) ++g_prefix_puts;   /* u<uid>NUL p<pid>NUL prefix */
  else if (len == 0) ;                                           /* QUEUE_EXTRA */
  else {
    V_ASSERT(len == 1 && g_pending && *buf == g_byte, "C01: the envelope is copied byte for byte, in order, nothing added");
    g_pending = 0;
  }
  if (ND_BOOL()) { g_write_failed = 1; V_HAVOC_ERRNO(); return -1; }
  if (len) wrote(s);
  return 0;
}
int substdio_put(substdio *s, const char *buf, size_t len) { return v_put(s, buf, len); }
int substdio_bput(substdio *s, const char *buf, size_t len) { return v_put(s, buf, len); }
int substdio_flush(substdio *s)
{
  V_ASSERT(s == &ssout, "C01: supporting");
  if (ND_BOOL()) { g_write_failed = 1; V_HAVOC_ERRNO(); return -1; }
  if (s->fd == MESSFD) g_dirty_mess = 0; else g_dirty_intd = 0;
  return 0;
}
int substdio_copy(substdio *out, substdio *in)
{
  int r = ND_INT();
  V_ASSERT(out == &ssout && out->fd == MESSFD && in == &ssin && in->fd == 0 && g_recv_written, "C01: the message is copied from descriptor 0 after the Received line");
  wrote(out);
  if (r == -2) { g_read_failed = 1; V_HAVOC_ERRNO(); return -2; }
  if (r == -3) { g_write_failed = 1; V_HAVOC_ERRNO(); return -3; }
  g_msg_complete = 1;
  return 0;
}
ssize_t substdio_get(substdio *s, char *buf, size_t len)
{
  unsigned char b;
  V_ASSERT(s == &ssin && s->fd == 1 && len == 1, "C01: the envelope is read from descriptor 1");
  V_ASSERT(!g_pending, "C01: every envelope byte is written before the next is read");
  V_ASSERT(g_env != E_DONE && g_env != E_BAD && g_env != E_LONG && !g_env_eof, "C01: nothing is read after the envelope ended or was found malformed");
  if (ND_BOOL()) { g_env_eof = 1; g_read_failed = 1; V_HAVOC_ERRNO(); V_INPUT_MARK(256); return ND_BOOL() ? 0 : -1; }
  b = ND_UCHAR(); V_INPUT_BYTE(b);
  *buf = (char)b; g_byte = (char)b;
  switch (g_env) {
    case E_START: if (b == 'F') { g_env = E_SENDER; g_n = 0; g_pending = 1; } else g_env = E_BAD; break;
    case E_SENDER: case E_RCPT: g_pending = 1; if (!b) g_env = E_NEXT; else if (++g_n >= 1003) g_env = E_LONG; break;
    case E_NEXT: if (!b) g_env = E_DONE; else if (b == 'T') { g_env = E_RCPT; g_n = 0; g_pending = 1; } else g_env = E_BAD; break;
  }
  return 1;
}

void _exit(int e)
{
  g_exit_code = e;
  if (g_in_sigalrm) { V_ASSERT(e == 52, "C01: the timeout is reported with exit code 52"); V_ASSUME(0); }
  V_ASSERT(e != 0, "C01: success is reported only by returning from main after publication");
  V_ASSERT(!g_todo, "C01: a failure code is returned only if the message was not published");
  V_ASSERT((e == 91) == (g_env == E_BAD), "C01: a malformed envelope (wrong record letter) is refused with exit code 91");
  V_ASSERT(e != 11 || g_env == E_LONG, "C01: exit code 11 means an address of 1003 or more bytes");
  V_ASSERT(g_env != E_LONG || e == 11 || e == 53, "C01: an address of 1003 or more bytes is refused with exit code 11 (or 53 if writing failed first)");
  V_ASSERT((e == 54) == (g_read_failed && !g_write_failed), "C01: a read error or premature end of input is refused with exit code 54");
  V_ASSERT((e == 53) == (g_write_failed != 0), "C01: a write, flush or fsync failure is reported with exit code 53");
  if (e == 53 || e == 54) {
    V_ASSERT(!g_intd || g_unlink_intd_failed, "C01: on a read or write failure the envelope file is removed");
    V_ASSERT(!g_mess || g_unlink_intd_failed || g_unlink_mess_failed, "C01: on a read or write failure the message file is removed");
  }
  V_COVER(e == 91); V_COVER(e == 11); V_COVER(e == 54 && g_intd == 0 && g_env == E_RCPT); V_COVER(e == 53 && g_env == E_NEXT);
  V_ASSUME(0);
}

void harness(void)
{
  int r;
  g_env = E_START; g_n = 0; g_env_eof = 0; g_pending = 0; g_mess = g_intd = g_todo = g_pid = 0;
  g_dirty_mess = g_dirty_intd = g_synced_mess = g_synced_intd = g_recv_written = g_msg_complete = 0;
  g_write_failed = g_read_failed = g_alarm = g_triggered = 0;
  g_unlink_intd_failed = g_unlink_mess_failed = g_trunc_intd = g_trunc_mess = g_cleanup_started = 0; g_prefix_puts = 0;
  g_fn_mess = g_fn_todo = g_fn_intd = 0; g_exit_code = -1; g_in_sigalrm = 0;
  g_datelen = ND_UINT(); V_ASSUME(g_datelen <= 64);
  flagmademess = 0; flagmadeintd = 0;   /* initial values of qmail-queue.c (DFCC makes statics nondeterministic) */
  r = main();
  V_ASSERT(r == 0 && g_todo, "C01: success is reported only after todo/<id> was linked");
  V_ASSERT(g_triggered, "C16: after a successful injection the trigger is pulled");
  V_ASSERT(g_mess && g_intd && !g_pid, "C02: a successfully queued message is in state S4 (mess, intd, todo)");
  V_COVER(r == 0 && g_n > 0);
}

void h_sigalrm(void)
{
  /* the timer may fire at any instant, also between link(intd,todo) and exit: the flags are then still set */
  g_todo = ND_BOOL(); g_alarm = 86400; g_cleanup_started = 0; g_in_sigalrm = 1;
  g_mess = ND_BOOL(); g_intd = ND_BOOL(); if (g_todo) { g_mess = 1; g_intd = 1; } flagmademess = g_mess; flagmadeintd = g_intd;
  intdfn = g_fn_intd = "i"; messfn = g_fn_mess = "m"; intdfd = INTDFD; messfd = MESSFD;
  g_env = E_SENDER; g_read_failed = g_write_failed = 0;
  g_exit_code = -1;
  sigalrm();
}
