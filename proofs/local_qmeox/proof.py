PROOF = dict(name="local_qmeox", properties=["C13"], units=["harness.c", "stubs2.c"], mode="plain", timeout=120, min_tagged=5, unwind=4,
    remove_bodies={"harness.c": ["temp_nomem", "temp_qmail"]},
    title="qmail-local.c qmeox(): the -owner file is .qmail + dash + sanitised extension + suffix; present iff stat succeeds; temporary errors defer",
    functions=["qmail-local.c:qmeox"],
    canaries=[dict(name="raw-extension-in-owner-name", file="qmail-local.c", literal=True, pattern=" if (!stralloc_cat(&qme,&safeext)) temp_nomem();\n if (!stralloc_cats(&qme,dashowner)) temp_nomem();", repl=" if (!stralloc_cats(&qme,ext)) temp_nomem();\n if (!stralloc_cats(&qme,dashowner)) temp_nomem();", expect=r"C13"),
              dict(name="temporary-error-ignored", file="qmail-local.c", literal=True, pattern="   if (error_temp(errno)) temp_qmail(qme.s);\n   return -1;", repl="   return -1;", expect=r"C13: a temporary error")])
