#include "verif.h"
extern int g_died;
void temp_nomem(void) { V_ASSUME(0); } void temp_qmail(char *fn) { g_died = 111; V_ASSUME(0); }
