/* C13: qmail-local.c qmeox() - does .qmail<dash><ext>-owner (or -owner-default) exist?  Decides the NEWSENDER of forwarded copies.  Real file unmodified. */
#include "verif.h"
#include <errno.h>
#include "qmail-local.c"
int g_stage, g_died; static char dashbuf[2], ownerbuf[8], namebuf[4];
void strerr_die(int e, const char *a, const char *b, const char *c, const char *d, const char *e5, const char *f, struct strerr *se) { g_died = e; V_ASSUME(0); }
char *error_str(int e) { return "x"; }
int stralloc_copys(stralloc *sa, char *s) { V_ASSERT(sa == &qme && g_stage == 0 && s[0] == '.' && s[1] == 'q' && s[6] == 0, "C13: owner files are named .qmail..."); g_stage = 1; return ND_BOOL(); }
int stralloc_cats(stralloc *sa, char *s) { V_ASSERT(sa == &qme && ((g_stage == 1 && s == dash) || (g_stage == 3 && s == ownerbuf)), "C13: ... then the dash argument, then (after the extension) the -owner suffix"); ++g_stage; return ND_BOOL(); }
int stralloc_cat(stralloc *sa, stralloc *sb) { V_ASSERT(sa == &qme && sb == &safeext && g_stage == 2, "C13: ... then the sanitised extension (lower-cased, dots mapped to colons: the name cannot leave the home directory)"); g_stage = 3; return ND_BOOL(); }
int stralloc_append(stralloc *sa, char *c) { V_ASSERT(sa == &qme && g_stage == 4 && !*c, "C13: supporting: the name is NUL-terminated"); g_stage = 5; qme.s = namebuf; return ND_BOOL(); }
int g_stat_r, g_temp;
int stat(const char *p, struct stat *st) { V_ASSERT(g_stage == 5 && p == qme.s, "C13: the file just named is examined"); g_stat_r = ND_BOOL() ? 0 : -1; if (g_stat_r) { V_HAVOC_ERRNO(); g_temp = ND_BOOL(); } return g_stat_r; }   /* g_temp: is this errno a temporary one? */
int error_temp(int e) { return g_temp; }
void harness(void)
{
  int r; dashbuf[0] = '-'; dashbuf[1] = 0; dash = dashbuf; g_stage = 0; g_died = -1; g_stat_r = 7; g_temp = 0;
  r = qmeox(ownerbuf);
  V_ASSERT(g_stage == 5 && (r == 0 || r == -1), "C13: supporting");
  V_ASSERT((r == 0) == (g_stat_r == 0), "C13: an -owner file counts as present exactly when it can be examined");
  V_ASSERT(!(g_stat_r == -1 && g_temp), "C13: a temporary error while looking for the -owner file defers the delivery instead of silently choosing another sender");
  V_COVER(r == -1);
}
