/* C14: qmail-send.c stripvdomprepend() - removal of the virtual-domain prefix from a failed recipient before it is named in a bounce.
 * Unbounded (loop contract): recipient and prefix of any length.  virtualdomains is a recording oracle (what it lists is configuration);
 * str_rchr / strlen / strncmp are used through their contracts.  Ghost index g_K (arbitrary domain offset) = "for every candidate". */
#include "verif.h"
#include <stdlib.h>
#include "qmail-send.c"

char *g_r, *g_pre; unsigned g_rl, g_pl, g_at, g_dl, g_K; int g_hasat, g_nprobes, g_hit, g_hit_empty, g_K_probed, g_cmp_called, g_cmp_eq; long g_lastoff;
static char g_empty[1];
unsigned int str_rchr(char *s, int c) { unsigned i = ND_UINT(); V_ASSERT(s == g_r && c == '@', "C14: the domain is what follows the last @ of the recipient"); V_ASSUME(i <= g_rl && (i == g_rl ? 1 : g_r[i] == '@')); g_hasat = i < g_rl; g_at = i; g_dl = g_rl - i - 1; return i; }
size_t strlen(const char *s) { if (s == g_pre) return g_pl; V_ASSERT(g_hasat && s == g_r + g_at + 1, "C14: supporting: length of the domain"); return g_dl; }
int strncmp(const char *a, const char *b, size_t n)
{
  V_ASSERT(a == g_r && b == g_pre && n == g_pl && g_hit && !g_hit_empty && !g_cmp_called, "C14: the recipient is compared with the whole prefix of the entry that matched");
  g_cmp_called = 1; g_cmp_eq = ND_BOOL(); if (g_cmp_eq) V_ASSUME(g_pl <= g_rl);   /* equal over n = |prefix| non-NUL bytes: the recipient is at least that long */
  return g_cmp_eq ? 0 : 1;
}
char *constmap(struct constmap *cm, char *s, int len)
{
  long off;
  V_ASSERT(cm == &mapvdoms && g_hasat && !g_hit, "C14: the virtual-domain table is not consulted again after its first hit");
  V_ASSERT(__CPROVER_same_object(s, g_r), "C14: supporting: candidates are suffixes of the recipient's domain");
  off = (long)(s - (g_r + g_at + 1));
  V_ASSERT(off >= 0 && off <= (long)g_dl && len == (int)(g_dl - (unsigned)off) && (off == 0 || off == (long)g_dl || g_r[g_at + 1 + off] == '.'), "C14: virtualdomains is consulted with the domain, then each .suffix, then the catch-all");
  V_ASSERT(off > g_lastoff, "C14: candidates are tried from the most specific to the catch-all, each once");
  g_lastoff = off; if ((unsigned)off == g_K) g_K_probed = 1; if (g_nprobes < 3) ++g_nprobes;
  if (ND_BOOL()) { g_hit = 1; g_hit_empty = ND_BOOL(); return g_hit_empty ? g_empty : g_pre; }
  return 0;
}
void harness(void)
{
  char *r;
  g_rl = ND_UINT(); g_pl = ND_UINT(); g_K = ND_UINT(); V_ASSUME(g_rl <= 0x3fffffff && g_pl >= 1 && g_pl <= 0x3fffffff);
  g_r = malloc((size_t)g_rl + 1); g_pre = malloc((size_t)g_pl + 1); V_ASSUME(g_r && g_pre); g_r[g_rl] = 0; g_pre[g_pl] = 0; g_pre[0] = 'p'; g_empty[0] = 0;
  g_hasat = g_nprobes = g_hit = g_hit_empty = g_K_probed = g_cmp_called = g_cmp_eq = 0; g_lastoff = -1; g_at = g_dl = 0;
  r = stripvdomprepend(g_r);
  if (!g_hasat) { V_ASSERT(r == g_r && g_nprobes == 0, "C14: a recipient without a domain is named as it is"); return; }
  if (!g_hit && g_K <= g_dl && (g_K == 0 || g_K == g_dl || g_r[g_at + 1 + g_K] == '.')) V_ASSERT(g_K_probed, "C14: every candidate (domain, each .suffix, catch-all) is consulted when none matches - none is skipped");
  if (g_hit && g_K <= g_dl && (long)g_K < g_lastoff && (g_K == 0 || g_r[g_at + 1 + g_K] == '.')) V_ASSERT(g_K_probed, "C14: no more specific candidate was skipped before the entry that decided");
  if (g_hit && !g_hit_empty && g_cmp_called && g_cmp_eq && g_r[g_pl] == '-') V_ASSERT(r == g_r + g_pl + 1, "C14: a recipient carrying the virtual-domain prefix and - is named without them in the bounce");
  else V_ASSERT(r == g_r, "C14: every other recipient is named unchanged (no match, empty prefix, prefix not carried)");
  if (g_hit && !g_hit_empty) V_ASSERT(g_cmp_called, "C14: supporting: the first match decides");
  V_COVER(r != g_r && g_nprobes >= 3); V_COVER(!g_hit && g_nprobes >= 3); V_COVER(g_hit && g_hit_empty);
}
