PROOF = dict(
    name="send_stripv_u", properties=["C14"], units=["harness.c"], mode="dfcc", timeout=300, min_tagged=8, unwind=20,
    loops=[dict(function="stripvdomprepend", head="for (i = 0;i <",
                invariants="recip == g_r && g_hasat && domain == g_r + g_at + 1 && domainlen == g_dl && g_at < g_rl && g_dl == g_rl - g_at - 1 && i <= domainlen + 1 && !g_hit && !g_cmp_called && g_lastoff < (long)i"
                           " && (!(g_K < i && g_K <= g_dl && (g_K == 0 || g_K == g_dl || g_r[g_at + 1 + g_K] == 46)) || g_K_probed)",
                assigns="i, prepend, g_nprobes, g_hit, g_hit_empty, g_K_probed, g_lastoff, g_cmp_called, g_cmp_eq", symbols=["recip", "domain", "domainlen", "i", "prepend"])],
    title="qmail-send.c stripvdomprepend(): virtualdomains candidates = domain, each .suffix, catch-all, in order, none skipped, first match decides; prefix- removed exactly when the recipient carries it - recipient and prefix of any length",
    functions=["qmail-send.c:stripvdomprepend"],
    replaced=["constmap (recording oracle)", "str_rchr, strlen, strncmp (contracts)"],
    canaries=[dict(name="dash-not-required", file="qmail-send.c", literal=True, pattern="       if (recip[i] != '-') break;\n       return recip + i + 1;", repl="       return recip + i + 1;", expect=r"C14"),
              dict(name="catchall-not-consulted", file="qmail-send.c", literal=True, pattern=" for (i = 0;i <= domainlen;++i)\n   if ((i == 0) || (i == domainlen) || (domain[i] == '.'))\n     if ((prepend = constmap(&mapvdoms", repl=" for (i = 0;i < domainlen;++i)\n   if ((i == 0) || (i == domainlen) || (domain[i] == '.'))\n     if ((prepend = constmap(&mapvdoms", expect=r"."),
              dict(name="search-continues-after-mismatch", file="qmail-send.c", literal=True, pattern="       if (str_diffn(recip,prepend,i)) break;", repl="       if (str_diffn(recip,prepend,i)) continue;", expect=r".")],
)
