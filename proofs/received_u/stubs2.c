#include "verif.h"
#ifdef P_RECEIVED
struct qmail; extern struct qmail g_qq; extern char *g_seq[5]; extern int g_nseq;
void safeput(struct qmail *q, char *s) { V_ASSERT(q == &g_qq && g_nseq < 5, "C07: supporting"); g_seq[g_nseq++] = s; }   /* proof received_safeput_u */
#endif
