PROOFS = [
  dict(name="received_safeput_u", properties=["C07"], entry="h_safeput", defines=["P_SAFEPUT"], units=["harness.c"], mode="dfcc", timeout=120, min_tagged=2, unwind=10,
       loops=[dict(function="safeput", head="while ((ch =", invariants="qqt == &g_qq && g_nput <= g_n && s == g_s + g_nput && g_n <= 0x3fffffff && g_s[g_n] == 0", assigns="s, ch, g_nput", symbols=["qqt", "s", "ch"])],
       title="received.c safeput()/issafe(): every byte of a peer-supplied string written into the Received field is safe (or replaced by ?), one per byte - strings of any length",
       functions=["received.c:safeput", "received.c:issafe"],
       canaries=[dict(name="backslash-is-safe", file="received.c", literal=True, pattern="  if (ch == '[') return 1;", repl="  if (ch == '[') return 1;\n  if (ch == '\\\\') return 1;", expect=r"C07: every byte of a peer-supplied"),
                 dict(name="paren-is-safe", file="received.c", literal=True, pattern="  if (ch == '[') return 1;", repl="  if (ch == '(') return 1;\n  if (ch == '[') return 1;", expect=r"C07: every byte of a peer-supplied")]),
  dict(name="received_field", properties=["C07"], entry="h_received", defines=["P_RECEIVED"], units=["harness.c", "stubs2.c"], mode="plain", timeout=120, min_tagged=4, unwind=4,
       remove_bodies={"harness.c": ["safeput"]},
       title="received.c received(): remote host, HELO argument, ident, remote IP and local name reach the Received field only through safeput, in the documented order",
       functions=["received.c:received"],
       canaries=[dict(name="helo-written-raw", file="received.c", literal=True, pattern="    safeput(qqt,helo);", repl="    qmail_puts(qqt,helo);", expect=r"C07")]),
]
