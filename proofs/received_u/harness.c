/* C07: received.c - the Received field written by the network daemons names the peer using only safe characters.
 * safeput() under a loop contract (strings of any length); received() with safeput() through that contract: every peer-supplied
 * string goes through safeput, only constants, the protocol name and the date are written directly. */
#include "verif.h"
#include <stdlib.h>
#include "received.c"
struct qmail g_qq; char *g_s; unsigned g_n, g_nput; int g_in_safeput;
static int dangerous(char c) { unsigned char u = (unsigned char)c; return u <= 32 || u >= 127 || c == '(' || c == ')' || c == '<' || c == '>' || c == ',' || c == ';' || c == '"' || c == '\\'; }
#ifdef P_SAFEPUT
void qmail_put(struct qmail *q, char *s, unsigned int n)
{
  V_ASSERT(q == &g_qq && n == 1 && !dangerous(s[0]), "C07: every byte of a peer-supplied string (host name, HELO argument, ident, IP) written into the Received field is a safe character");
  V_ASSERT(g_nput < g_n && (s[0] == g_s[g_nput] || s[0] == '?'), "C07: supporting: one byte is written per byte of the string, the byte itself or ?");
  ++g_nput;
}
void h_safeput(void)
{
  g_n = ND_UINT(); V_ASSUME(g_n <= 0x3fffffff); g_s = malloc((size_t)g_n + 1); V_ASSUME(g_s != 0); g_s[g_n] = 0; g_nput = 0;
  safeput(&g_qq, g_s);
  V_ASSERT(g_nput <= g_n && g_s[g_nput] == 0, "C07: supporting: the whole string up to its NUL is written");
  V_COVER(g_nput > 20);
}
#endif
#ifdef P_RECEIVED
static char rh[2], he[2], ri[2], rip[2], lo[2], pr[2]; int g_safeputs, g_order_ok, g_direct_bad;
char *g_seq[5]; int g_nseq;
void qmail_put(struct qmail *q, char *s, unsigned int n)
{
  V_ASSERT(q == &g_qq, "C07: supporting");
  V_ASSERT(s != rh && s != he && s != ri && s != rip && s != lo, "C07: no peer-supplied string (remote host, HELO argument, ident, remote IP) or local host name is written into the Received field except through safeput");
}
size_t strlen(const char *s) { return 1; }
time_t time(time_t *t) { return 0; } void datetime_tai(struct datetime *d, datetime_sec t) {} unsigned int date822fmt(char *s, struct datetime *d) { return 10; }
void h_received(void)
{
  int hh = ND_BOOL(), hi = ND_BOOL(); int k = 0;
  rh[0] = he[0] = ri[0] = rip[0] = lo[0] = pr[0] = 'x'; rh[1] = he[1] = ri[1] = rip[1] = lo[1] = pr[1] = 0; g_nseq = 0;
  received(&g_qq, pr, lo, rip, rh, hi ? (char *)ri : (char *)0, hh ? (char *)he : (char *)0);
  V_ASSERT(g_nseq == 3 + hh + hi, "C07: supporting: one safeput per peer string present");
  V_ASSERT(g_seq[k++] == rh, "C07: the Received field names the remote host first"); if (hh) V_ASSERT(g_seq[k++] == he, "C07: then the HELO argument, if any"); if (hi) V_ASSERT(g_seq[k++] == ri, "C07: then the ident, if any");
  V_ASSERT(g_seq[k] == rip && g_seq[k + 1] == lo, "C07: then the remote IP and the local host name");
  V_COVER(hh && hi);
}
#endif
