GH = "g_lenhash, g_pos, g_poskd, g_slothash, g_klen, g_dlenv, g_probes, g_eh2, g_stage, g_failed, g_seeked, g_sh_set, g_klen_set, g_dlen_set, g_keyreads, g_pb"
PROOF = dict(
    name="cdb_seek", properties=["C11", "C08"], units=["harness.c", "stubs2.c"], mode="dfcc", timeout=600, min_tagged=8, unwind=30,
    remove_bodies={"harness.c": ["cdb_bread"]},
    loops=[
        dict(function="cdb_seek", head="for (loop = 0;loop <",
             invariants="!g_failed && !g_seeked && h == g_h && len == g_len && key == g_key && lenhash == g_lenhash && lenhash > 0 && pos == g_pos && g_pb == packbuf && loop <= lenhash && h2 < lenhash"
                        " && (loop == 0 ? (g_stage == 1) : (g_stage >= 2 && g_probes + 1 == loop && h2 == (g_eh2 + 1 == lenhash ? 0 : g_eh2 + 1)"
                        " && !(g_stage == 2 && g_sh_set && g_slothash == g_h && !g_klen_set) && !(g_stage == 2 && !g_sh_set)))",
             assigns="loop, h2, poskd, __CPROVER_object_whole(packbuf), *dlen, " + GH, symbols=["h", "len", "key", "lenhash", "pos", "packbuf", "loop", "h2", "poskd", "dlen"]),
        dict(function="match", head="while (len > 0)", invariants="len <= g_len && key == g_key + (g_len - len) && g_stage == 3 && g_klen_set && g_klen == g_len && !g_failed && fd == 9",
             assigns="len, key, n, i, __CPROVER_object_whole(buf), g_failed, g_keyreads", symbols=["len", "key", "n", "i", "buf", "fd"]),
        dict(function="match", head="for (i = 0;i < n;++i)", invariants="0 <= i && i <= n && 1 <= n && n <= 32 && (unsigned)n <= len", assigns="i", symbols=["i", "n", "len"]),
    ],
    title="cdb_seek.c cdb_seek()/match(): 'not found' only for an empty table, an empty slot or after every slot was probed (hash collisions do not end the search); probes walk consecutively from the home slot; every fault is an error, never 'not found' - for every database content and key length",
    functions=["cdb_seek.c:cdb_seek", "cdb_seek.c:match"],
    replaced=["cdb_bread, lseek (any content, any failure)", "cdb_unpack (recording oracle; proof cdb_pack)", "cdb_hash (any hash; proof cdb_hash)"],
    assumptions=["C11: hash tables have fewer than 2^29 slots (the format addresses 4 GiB with 8-byte slots; with more, 8*slot wraps in the 32-bit offset arithmetic of the code)", "C11: the home-slot formula ((hash / 256) mod table length) is taken from the code, not re-derived (comparing two 32-bit modulo terms does not finish in the SAT back end); that the walk from it is consecutive, wraps and is complete is proved"],
    canaries=[
        dict(name="collision-ends-search", file="cdb_seek.c", literal=True, pattern="\tswitch(match(fd,key,len)) {\n\t  case -1:\n\t    return -1;\n\t  case 1:\n\t    *dlen = cdb_unpack(packbuf + 4);\n\t    return 1;\n\t}",
             repl="\t{ int r = match(fd,key,len); if (r == 1) *dlen = cdb_unpack(packbuf + 4); return r; }", expect=r"C11: 'not found' is reported only"),
        dict(name="no-wrap-around", file="cdb_seek.c", literal=True, pattern="    if (++h2 == lenhash) h2 = 0;", repl="    if (++h2 == lenhash) break;", expect=r"."),
        dict(name="read-error-is-not-found", file="cdb_seek.c", literal=True, pattern="    if (cdb_bread(fd,packbuf,8) == -1) return -1;\n    poskd =", repl="    if (cdb_bread(fd,packbuf,8) == -1) return 0;\n    poskd =", expect=r"C11: any read or seek failure"),
    ],
)
