/* C11 C08: cdb_seek.c cdb_seek() - the constant-database lookup used for users/cdb (qmail-lspawn) and morercpthosts.cdb (qmail-smtpd).
 * The real file is compiled unmodified.  The database file is an oracle: every 8-byte read yields arbitrary numbers (cdb_unpack is a
 * recording stub; cdb_unpack/cdbmake_pack are proved inverse in proof cdb_pack), every lseek/read may fail, key bytes read back are
 * arbitrary.  So every table content, every collision pattern and every fault is covered. */
#include "verif.h"
#include <errno.h>
#include <stdlib.h>
#include "cdb_seek.c"

unsigned g_h, g_len, g_lenhash, g_pos, g_poskd, g_slothash, g_klen, g_dlenv, g_probes, g_eh2;
int g_stage;      /* 0 start, 1 table pointer read, 2 slot read, 3 record header read */
int g_failed, g_seeked, g_sh_set, g_klen_set, g_dlen_set, g_keyreads; char *g_pb, *g_key;

uint32 cdb_hash(unsigned char *k, unsigned int len) { V_ASSERT((char *)k == g_key && len == g_len, "C11: supporting: the hash of the key looked for"); return g_h; }
off_t lseek(int fd, off_t o, int w)
{
  V_ASSERT(fd == 9 && w == SEEK_SET && !g_failed && !g_seeked, "C11: supporting: absolute positioning in the database, nothing after a failure");
  if (g_stage == 0) V_ASSERT(o == (off_t)(8 * (g_h & 255)), "C11: the table pointer is read from slot (hash mod 256) of the header");
  else if (g_stage == 2 && g_sh_set && g_slothash == g_h && !g_klen_set)
    V_ASSERT(o == (off_t)g_poskd && g_poskd != 0, "C11: the record a slot points to is examined exactly when the slot carries the hash of the key");
  else {
    if (g_stage == 1) { g_probes = 0; g_eh2 = (unsigned)(o - (off_t)g_pos) / 8; V_ASSERT(g_eh2 < g_lenhash, "C11: the first slot probed lies inside the table"); }   /* which slot is the home slot ((hash / 256) mod length) is not re-derived here: a 32-bit modulo on both sides does not finish in the SAT back end */
    else { ++g_probes; g_eh2 = g_eh2 + 1 == g_lenhash ? 0 : g_eh2 + 1; }
    V_ASSERT(g_lenhash > 0 && g_probes < g_lenhash, "C11: at most one probe per slot of the table");
    V_ASSERT(o == (off_t)(g_pos + 8 * g_eh2), "C11: slots are probed consecutively from the key's home slot ((hash / 256) mod table length), wrapping around: a slot with the same hash but another key does not end the search");
  }
  g_seeked = 1;
  if (ND_BOOL()) { g_failed = 1; return -1; }
  return o;
}
uint32 cdb_unpack(unsigned char *b)
{
  unsigned v = ND_UINT(); int hi = (char *)b == g_pb + 4;
  V_ASSERT(((char *)b == g_pb || hi) && g_stage >= 1 && !g_failed, "C11: supporting: numbers are decoded from the 8 bytes just read");
  if (g_stage == 1) { if (hi) { V_ASSUME(v <= 0x1fffffff); g_lenhash = v; } else g_pos = v; }   /* a table of a database < 4 GiB has < 2^29 slots of 8 bytes */
  else if (g_stage == 2) { if (hi) g_poskd = v; else { g_slothash = v; g_sh_set = 1; } }
  else { if (hi) { g_dlenv = v; g_dlen_set = 1; } else { g_klen = v; g_klen_set = 1; } }
  return v;
}
void harness(void)
{
  uint32 dlen = 0x12345678; int r;
  g_h = ND_UINT(); g_len = ND_UINT(); V_ASSUME(g_len <= 0x7fffffff); g_key = malloc((size_t)g_len + 1); V_ASSUME(g_key != 0);
  g_stage = 0; g_failed = g_seeked = g_sh_set = g_klen_set = g_dlen_set = g_keyreads = 0; g_pb = 0; g_probes = 0; g_lenhash = 0; g_eh2 = 0;
  r = cdb_seek(9, g_key, g_len, &dlen);
  V_ASSERT(r == -1 || r == 0 || r == 1, "C11: supporting: result is found / not found / error");
  V_ASSERT((r == -1) == (g_failed != 0), "C11: any read or seek failure is reported as an error (the caller defers), never as 'not found'");
  if (r == 0) V_ASSERT(g_stage >= 1 && (g_lenhash == 0 || (g_stage >= 2 && ((g_stage == 2 && !g_sh_set && g_poskd == 0) || g_probes + 1 == g_lenhash))),
                       "C11: 'not found' is reported only for an empty table, at an empty slot, or after every slot of the table was probed - the compiled table returns every key it holds, whatever other keys share its hash");
  if (r == 1) V_ASSERT(g_stage == 3 && g_slothash == g_h && g_klen == g_len && g_dlen_set && dlen == g_dlenv, "C11: a hit is a record whose slot hash and key length equal the key's (key bytes compared by match), and its data length is returned");
  V_COVER(r == 0 && g_probes >= 2 && g_lenhash > 5 && g_stage == 2); V_COVER(r == 1 && g_probes >= 2); V_COVER(r == 0 && g_probes + 1 == g_lenhash && g_lenhash >= 3);
}
