#include "verif.h"
extern int g_stage, g_failed, g_seeked, g_sh_set, g_klen_set, g_dlen_set, g_keyreads; extern char *g_pb; extern unsigned g_slothash, g_h, g_klen, g_len;
int cdb_bread(int fd, char *buf, int len)
{
  V_ASSERT(fd == 9 && !g_failed, "C11: supporting: nothing is read after a failure");
  if (g_stage == 3 && g_klen_set && buf != g_pb) {   /* key bytes of the candidate record, read by match() */
    V_ASSERT(g_klen == g_len && len >= 1 && len <= 32, "C11: key bytes are compared only when the stored key has the length of the key looked for");
    __CPROVER_havoc_object(buf); g_keyreads = 1;
    if (ND_BOOL()) { g_failed = 1; return -1; }
    return 0;
  }
  V_ASSERT(len == 8 && g_seeked && (g_pb == 0 || buf == g_pb), "C11: supporting: table and record headers are 8 bytes, read after positioning");
  g_pb = buf; g_seeked = 0;
  if (ND_BOOL()) { g_failed = 1; return -1; }
  if (g_stage == 0) g_stage = 1;
  else if (g_stage == 2 && g_sh_set && g_slothash == g_h && !g_klen_set) g_stage = 3;
  else { g_stage = 2; g_sh_set = 0; g_klen_set = 0; g_dlen_set = 0; }
  return 0;
}
