/* C02 C03 C04 C14 C15 C16 C18: the queue manager qmail-send.c, function by function, each from an ARBITRARY state of
 * the tables it reads (slot tables bounded to NSLOT/NJOB entries, DESIGN 2.18).  The real file is compiled unmodified.
 * Shared environment: fmtqfn() records which queue file name `fn`/`fn2` currently holds; stat()/unlink() work on a
 * knowledge vector for the one message the function under proof is handling. */
#include "verif.h"
#include <errno.h>
#include "qmail-send.c"

#ifndef NSLOT
#define NSLOT 4
#endif
#ifndef NJOB
#define NJOB 8
#endif
enum { F_OTHER, F_INFO, F_TODO, F_MESS, F_FOOP, F_LOCAL, F_REMOTE, F_BOUNCE, F_SPLIT };
int g_fn_kind, g_fn2_kind; unsigned long g_fn_id, g_fn2_id;
static char fnbuf1[FMTQFN], fnbuf2[FMTQFN];
unsigned int fmtqfn(char *s, char *dir, unsigned long id, int split)
{
  int k = F_OTHER;
  if (dir[0] == 'i') k = F_INFO; else if (dir[0] == 't') k = F_TODO; else if (dir[0] == 'm') k = F_MESS; else if (dir[0] == 'f') k = F_FOOP;
  else if (dir[0] == 'l') k = F_LOCAL; else if (dir[0] == 'r') k = F_REMOTE; else if (dir[0] == 'b') k = F_BOUNCE; else if (!dir[0]) k = F_SPLIT;
  V_ASSERT(split == (k == F_INFO || k == F_MESS || k == F_LOCAL || k == F_REMOTE || k == F_SPLIT), "C02: supporting: info, mess, local, remote are split directories; todo, intd, bounce, foop are not");
  if (s == fn.s) { g_fn_kind = k; g_fn_id = id; } else if (s == fn2.s) { g_fn2_kind = k; g_fn2_id = id; } else V_ASSERT(0, "C02: supporting: queue names are formatted into fn/fn2");
  return 10 + ND_UINT() % 30;
}
/* knowledge about the files of message g_id: 0 unknown, 1 known absent, 2 known present */
unsigned long g_id; int k_file[9]; int g_stat_err;
datetime_sec g_atime, g_mtime[9];
int stat(const char *p, struct stat *st)
{
  int r = ND_INT();
  V_ASSERT(p == fn.s || p == fn2.s, "C02: supporting: stat on a formatted queue name");
  { int kind = p == fn.s ? g_fn_kind : g_fn2_kind; unsigned long id = p == fn.s ? g_fn_id : g_fn2_id;
    V_ASSERT(id == g_id, "C02: supporting: the function examines the files of the message it was called for");
    if (r == 0) { if (k_file[kind] == 1) r = -1, errno = ENOENT; else { k_file[kind] = 2; st->st_atime = g_atime; st->st_mtime = g_mtime[kind]; V_HAVOC_ERRNO(); return 0; } }
    if (r == -2 && k_file[kind] != 2) { k_file[kind] = 1; errno = ENOENT; return -1; }
    if (r != 0) { int e = ND_INT(); V_ASSUME(e != ENOENT && e != 0); errno = e; g_stat_err = 1; return -1; }
    return -1; }
}
int g_nunlink, g_unlink_kind[4], g_unlink_ok[4];
int unlink(const char *p)
{
  int kind = p == fn.s ? g_fn_kind : g_fn2_kind; unsigned long id = p == fn.s ? g_fn_id : g_fn2_id;
  V_ASSERT((p == fn.s || p == fn2.s) && id == g_id, "C02: only files of the message being handled are removed");
  V_ASSERT(g_nunlink < 4, "C02: supporting"); g_unlink_kind[g_nunlink] = kind;
  if (ND_BOOL()) { g_unlink_ok[g_nunlink++] = 0; V_HAVOC_ERRNO(); if (errno == ENOENT && k_file[kind] != 2) k_file[kind] = 1; return -1; }
  g_unlink_ok[g_nunlink++] = 1; k_file[kind] = 1; return 0;
}
void log1(char *a) {} void qslog2(char *a, char *b) {} void log3(char *a, char *b, char *c) {} void logsa(stralloc *s) {} void nomem(void) { V_ASSUME(0); } void pausedir(char *d) {} void logsafe(char *s) {}
time_t time(time_t *t) { return recent; }
unsigned int fmt_ulong(char *s, unsigned long u) { return 1 + ND_UINT() % 20; }   /* contract: 1..20 digits written (proof fmt_ulong) */
/* priority queues: recording stubs (heap behaviour is proved in prioq_*) */
int g_nins; prioq *g_ins_q[3]; unsigned long g_ins_id[3]; datetime_sec g_ins_dt[3];
int prioq_insert(prioq *q, struct prioq_elt *pe) { V_ASSERT(g_nins < 3, "C03: supporting"); g_ins_q[g_nins] = q; g_ins_id[g_nins] = pe->id; g_ins_dt[g_nins] = pe->dt; ++g_nins; return 1; }
int g_min_ok[4]; struct prioq_elt g_min[4];
static int qidx(prioq *q) { return q == &pqchan[0] ? 0 : q == &pqchan[1] ? 1 : q == &pqfail ? 2 : 3; }
int prioq_min(prioq *q, struct prioq_elt *pe) { int i = qidx(q); if (!g_min_ok[i]) return 0; *pe = g_min[i]; return 1; }
int g_delmin[4];
void prioq_delmin(prioq *q) { ++g_delmin[qidx(q)]; }
static void common_init(void)
{
  int i;
  fn.s = fnbuf1; fn.a = FMTQFN; fn.len = 0; fn2.s = fnbuf2; fn2.a = FMTQFN; fn2.len = 0;
  g_fn_kind = g_fn2_kind = F_OTHER; g_fn_id = g_fn2_id = 0; g_id = ND_ULONG(); g_stat_err = 0; g_nunlink = 0; g_nins = 0;
  for (i = 0; i < 9; ++i) { k_file[i] = 0; g_mtime[i] = ND_LONG(); }
  for (i = 0; i < 4; ++i) { g_min_ok[i] = ND_BOOL(); g_min[i].dt = ND_LONG(); g_min[i].id = ND_ULONG(); g_delmin[i] = 0; V_ASSUME(0 <= g_min[i].dt && g_min[i].dt < (1L << 40)); }
  g_atime = ND_LONG(); recent = ND_LONG(); V_ASSUME(0 <= recent && recent < (1L << 40) && 0 <= g_atime && g_atime < (1L << 40));
  flagexitasap = 0;
}

/* ================= cleanup_do ================= */
#ifdef P_CLEANUP
int g_asked, g_rs;
void readsubdir_init(readsubdir *rs, char *n, void (*p)()) {}
int readsubdir_next(readsubdir *rs, unsigned long *id) { g_rs = ND_INT(); if (g_rs == 1) { *id = g_id; return 1; } return g_rs == 0 ? 0 : -1; }
int substdio_putflush(substdio *s, const char *b, size_t n)
{
  V_ASSERT(s == &sstoqc && b == fn.s && g_fn_kind == F_FOOP && g_fn_id == g_id, "C02: qmail-clean is asked for foop/<id> of the message just examined");
  V_ASSERT(k_file[F_MESS] == 2 && recent > g_atime + OSSIFIED, "C02: a leftover is collected only if its mess file is older than 36 hours");
  V_ASSERT(k_file[F_INFO] == 1, "C02: a leftover is collected only when no info entry exists (stat said ENOENT)");
  V_ASSERT(k_file[F_TODO] == 1, "C02,C03: a leftover is collected only when no todo entry exists (stat said ENOENT) - a message waiting in todo/ is never swept away");
  g_asked = 1; return ND_BOOL() ? -1 : 0;
}
ssize_t substdio_get(substdio *s, char *b, size_t n) { *b = ND_CHAR(); return ND_BOOL() ? 1 : 0; }
void h_cleanup(void)
{
  common_init(); g_asked = 0; flagcleanup = ND_BOOL(); cleanuptime = ND_LONG();
  cleanup_do();
  V_COVER(g_asked);
}
#endif

/* ================= pqadd ================= */
#ifdef P_PQADD
void h_pqadd(void)
{
  int c, n = 0;
  common_init();
  pqadd(g_id);
  if (k_file[F_INFO] == 2 && k_file[F_TODO] == 1 && !g_stat_err) {
    for (c = 0; c < CHANNELS; ++c) {
      int kind = c == 0 ? F_LOCAL : F_REMOTE, found = 0, i;
      for (i = 0; i < g_nins; ++i) if (g_ins_q[i] == &pqchan[c]) { ++found; V_ASSERT(g_ins_id[i] == g_id && g_ins_dt[i] == g_mtime[kind], "C15: a message is rescheduled on each channel at the time recorded on that channel's own file (the schedule survives a restart)"); }
      V_ASSERT(found == (k_file[kind] == 2), "C03: a preprocessed message is scheduled on exactly the channels whose recipient list exists");
      n += found;
    }
    if (n == 0) V_ASSERT(g_nins == 1 && g_ins_q[0] == &pqdone && g_ins_id[0] == g_id, "C03: a message without recipient lists is queued for completion (bounce, removal), never forgotten");
    else V_ASSERT(g_nins == n, "C03: supporting: no other queue entries");
  }
  if (g_stat_err && !(k_file[F_INFO] == 2 && k_file[F_TODO] == 2)) V_ASSERT(g_nins >= 1 && g_ins_q[g_nins - 1] == &pqfail && g_ins_id[g_nins - 1] == g_id, "C03: after a stat error the message is re-examined later, never forgotten");
  V_COVER(n == 2); V_COVER(g_stat_err);
}
#endif

/* ================= messdone ================= */
#ifdef P_MESSDONE
int g_inject_called, g_inject_ret, g_foop;
int substdio_putflush(substdio *s, const char *b, size_t n)
{
  V_ASSERT(s == &sstoqc && b == fn.s && g_fn_kind == F_FOOP && g_fn_id == g_id, "C02: qmail-clean is asked for foop/<id> of this message");
  V_ASSERT(g_nunlink == 1 && g_unlink_kind[0] == F_INFO && g_unlink_ok[0], "C02: mess and intd are removed only after info was unlinked");
  g_foop = 1; return ND_BOOL() ? -1 : 0;
}
ssize_t substdio_get(substdio *s, char *b, size_t n) { *b = ND_CHAR(); return ND_BOOL() ? 1 : 0; }
void h_messdone(void)
{
  common_init(); g_inject_called = g_foop = 0;
  messdone(g_id);
  if (g_nunlink) {
    V_ASSERT(g_nunlink == 1 && g_unlink_kind[0] == F_INFO, "C02: messdone removes only the info file");
    V_ASSERT(k_file[F_LOCAL] == 1 && k_file[F_REMOTE] == 1, "C03: info is removed only when both recipient lists are known to be gone (every recipient done)");
    V_ASSERT(k_file[F_TODO] == 1, "C02: info is removed only when no todo entry exists");
    V_ASSERT(g_inject_called && g_inject_ret == 1, "C03: info is removed only after the bounce (if any) was successfully queued");
  }
  if (!g_foop && !(k_file[F_LOCAL] == 2 || k_file[F_REMOTE] == 2 || k_file[F_TODO] == 2 || (k_file[F_INFO] == 1 && !g_nunlink)))
    V_ASSERT(g_nins == 1 && g_ins_q[0] == &pqdone && g_ins_id[0] == g_id, "C03: on any failure the message stays scheduled for completion, never forgotten");
  V_COVER(g_foop); V_COVER(g_nins == 1);
}
#endif

/* ================= job_close ================= */
#ifdef P_JOBCLOSE
static struct job jobs[NJOB];
void h_jobclose(void)
{
  int j = ND_INT(), k, refs0, eof0, todo0, chan0;
  common_init(); V_ASSUME(0 <= j && j < NJOB); numjobs = NJOB; jo = jobs;
  for (k = 0; k < NJOB; ++k) { jobs[k].refs = ND_INT(); jobs[k].id = ND_ULONG(); jobs[k].channel = ND_BOOL(); jobs[k].numtodo = ND_INT(); jobs[k].flaghiteof = ND_BOOL(); jobs[k].retry = ND_LONG(); }
  V_ASSUME(jobs[j].refs >= 1 && jobs[j].refs < 1000 && jobs[j].id == g_id && jobs[j].numtodo >= 0);
  refs0 = jobs[j].refs; eof0 = jobs[j].flaghiteof; todo0 = jobs[j].numtodo; chan0 = jobs[j].channel;
  job_close(j);
  if (refs0 > 1) { V_ASSERT(g_nunlink == 0 && g_nins == 0 && jobs[j].refs == refs0 - 1, "C03: a job with deliveries still in flight is only dereferenced"); return; }
  if (g_nunlink) {
    V_ASSERT(g_nunlink == 1 && g_unlink_kind[0] == (chan0 ? F_REMOTE : F_LOCAL), "C03: job_close removes only this channel's recipient list");
    V_ASSERT(eof0 && todo0 == 0, "C03: a recipient list is removed only when the whole list was read and no recipient of it is still pending");
  }
  V_ASSERT(g_nins == 1 || (g_nunlink == 1 && g_unlink_ok[0] && k_file[chan0 ? F_LOCAL : F_REMOTE] == 2 && g_nins == 0), "C03: a closed pass is rescheduled (its channel queue, or completion) unless the other channel is still going");
  if (g_nins == 1) V_ASSERT(g_ins_id[0] == g_id && (g_ins_q[0] == &pqchan[chan0] || (g_ins_q[0] == &pqdone && g_nunlink == 1 && g_unlink_ok[0])), "C03: a message with pending recipients returns to its channel's retry queue; completion only after its list was removed");
  if (g_nins == 1 && g_ins_q[0] == &pqchan[chan0] && !g_nunlink) V_ASSERT(g_ins_dt[0] == jobs[j].retry, "C15: a deferred message is rescheduled at its computed retry time");
  V_COVER(g_nunlink == 1 && g_nins == 1 && g_ins_q[0] == &pqdone); V_COVER(g_nins == 1 && g_ins_q[0] == &pqchan[chan0]);
}
#endif

/* ================= pass_dochan ================= */
#ifdef P_PASS
static struct job jobs[NJOB]; static struct del dels[CHANNELS][NSLOT];
static char linebuf[32]; unsigned g_linelen; int g_getln, g_match, g_started, g_start_j, g_jobclosed, g_jobclosed_j, g_getinfo_ok, g_opened, g_closed;
seek_pos g_start_mpos; datetime_sec g_birth;
int getln(substdio *ss, stralloc *sa, int *match, int sep)
{
  V_ASSERT(sep == 0, "C03: supporting: records are NUL-terminated");
  g_getln = 1;
  if (ND_BOOL()) { V_HAVOC_ERRNO(); g_getln = -1; return -1; }
  g_match = ND_BOOL(); g_linelen = ND_UINT(); V_ASSUME(g_linelen <= 2000);
  if (g_match) V_ASSUME(g_linelen >= 1);
  linebuf[0] = ND_CHAR();
  sa->s = linebuf; sa->len = g_linelen; sa->a = 32; *match = g_match; return 0;
}
int open_read(char *f) { V_ASSERT(f == fn.s && (g_fn_kind == F_LOCAL || g_fn_kind == F_REMOTE), "C03: supporting: a pass reads a recipient list"); if (ND_BOOL()) { V_HAVOC_ERRNO(); return -1; } g_opened = 1; return 11; }
int close(int fd) { g_closed = 1; return 0; }
int stralloc_copy(stralloc *a, stralloc *b) { return 1; }
void h_pass(void)
{
  int c = ND_BOOL(), k; unsigned long id0; seek_pos mpos0; int j0, todo0;
  common_init(); numjobs = NJOB; jo = jobs; d[0] = dels[0]; d[1] = dels[1];
  for (k = 0; k < NJOB; ++k) { jobs[k].refs = ND_BOOL(); jobs[k].numtodo = ND_INT(); V_ASSUME(0 <= jobs[k].numtodo && jobs[k].numtodo < 1000000); jobs[k].flaghiteof = 0; jobs[k].flagdying = ND_BOOL(); }
  for (k = 0; k < CHANNELS; ++k) { pass[k].id = ND_ULONG(); pass[k].j = ND_INT(); pass[k].mpos = ND_LONG(); V_ASSUME(0 <= pass[k].j && pass[k].j < NJOB && 0 <= pass[k].mpos && pass[k].mpos < (1L << 50)); if (pass[k].id) V_ASSUME(jobs[pass[k].j].refs); }
  lifetime = ND_INT(); V_ASSUME(0 <= lifetime);
  g_getln = g_started = g_jobclosed = g_opened = g_closed = g_getinfo_ok = 0; g_min[c].id = g_id; V_ASSUME(g_id != 0);
  id0 = pass[c].id; mpos0 = pass[c].mpos; j0 = pass[c].j; todo0 = jobs[j0].numtodo;
  pass_dochan(c);
  int newpass = !id0 && g_delmin[c] && g_opened && g_getinfo_ok;
  if (newpass) {   /* a new pass was opened */
    V_ASSERT(g_min_ok[c] && g_min[c].dt <= recent && g_delmin[c] == 1, "C15: a pass starts only for the earliest-due message of the channel, and only when it is due");
    V_ASSERT(jobs[pass[c].j].id == g_min[c].id && jobs[pass[c].j].channel == c, "C04: supporting: the pass belongs to that message");
    V_ASSERT(jobs[pass[c].j].flagdying == (recent > g_birth + lifetime), "C15: the last-attempt flag is set exactly when the message is older than the queue lifetime (and cleared otherwise)");
    mpos0 = 0; j0 = pass[c].j; todo0 = 0;
  }
  if (!id0 && g_delmin[c] && !newpass) V_ASSERT(g_nins == 1 && g_ins_q[0] == &pqchan[c] && g_ins_id[0] == g_min[c].id, "C03: a message whose pass could not be opened goes back to its retry queue, never forgotten");
  if (g_started) {
    V_ASSERT(g_getln == 1 && g_match && linebuf[0] == 'T', "C04: a delivery is started only for a recipient record still marked T (never for one marked done)");
    V_ASSERT(g_start_j == j0 && g_start_mpos == mpos0, "C04,C03: the completion mark offset handed to the delivery is the offset of exactly that record");
    V_ASSERT(jobs[j0].numtodo == todo0 + 1, "C03: every started delivery is counted as pending");
  }
  if (g_getln == 1 && g_match && pass[c].id) V_ASSERT(pass[c].mpos == mpos0 + (seek_pos)g_linelen, "C04,C03: the mark offset advances over every record read, done or not (else a later success marks an earlier, merely deferred recipient as finished)");
  if (g_getln == 1 && !g_match) V_ASSERT(g_jobclosed && jobs[j0].flaghiteof == 1 && pass[c].id == 0, "C03: at the end of the list the pass is closed with the end-of-list flag");
  if (g_getln == 1 && g_match) V_ASSERT(jobs[j0].flaghiteof == 0, "C03: the end-of-list flag is set only at the real end of the list");
  if (g_getln == -1 || (g_getln == 1 && g_match && linebuf[0] != 'T' && linebuf[0] != 'D')) V_ASSERT(g_jobclosed && pass[c].id == 0 && jobs[j0].flaghiteof == 0, "C03: on a read error or an unknown record the pass is closed without the end-of-list flag (the list is kept)");
  V_COVER(g_started); V_COVER(!id0 && pass[c].id && g_started);
}
#endif

/* ================= del_dochan: one complete report (the NUL that ends it arrives now) ================= */
#ifdef P_DELREPORT
static struct job jobs[NJOB]; static struct del dels[CHANNELS][NSLOT]; static char dl[16];
int g_marked, g_mark_c, g_bounced, g_order_ok, g_closedjob = -1, g_spawndied; unsigned long g_mark_id, g_bounce_id; seek_pos g_mark_pos; char *g_bounce_recip;
int g_noread;
ssize_t read(int fd, void *b, size_t n) { int r = ND_INT(); V_ASSERT(b == delbuf && n == sizeof delbuf, "C18: supporting: reports are read into delbuf"); if (r == 1) { delbuf[0] = 0; return 1; } if (r != 0) g_noread = 1; return r == 0 ? 0 : -1; }
int stralloc_append(stralloc *sa, char *c) { if (sa->len < 16) sa->s[sa->len] = *c; ++sa->len; return 1; }      /* count only: the report text is not interpreted beyond bytes 0 and 1 */
int stralloc_cats(stralloc *sa, char *s) { sa->len += 70; return 1; }
void h_delreport(void)
{
  int c = ND_BOOL(), k, n, dn; int used0[NSLOT], todo0[NJOB], cu0; unsigned len0; char st;
  common_init(); numjobs = NJOB; jo = jobs; d[0] = dels[0]; d[1] = dels[1];
  concurrency[0] = ND_UINT(); concurrency[1] = ND_UINT(); V_ASSUME(concurrency[0] <= NSLOT && concurrency[1] <= NSLOT);
  for (k = 0; k < NJOB; ++k) { jobs[k].refs = ND_INT(); jobs[k].id = ND_ULONG(); jobs[k].numtodo = ND_INT(); jobs[k].flagdying = ND_BOOL(); jobs[k].channel = c; V_ASSUME(0 <= jobs[k].numtodo && jobs[k].numtodo <= 100000 && 0 <= jobs[k].refs && jobs[k].refs <= 100000); todo0[k] = jobs[k].numtodo; }
  n = 0;
  for (k = 0; k < NSLOT; ++k) { dels[c][k].used = ND_BOOL(); dels[c][k].j = ND_INT(); dels[c][k].mpos = ND_LONG(); dels[c][k].delid = ND_ULONG(); V_ASSUME(0 <= dels[c][k].j && dels[c][k].j < NJOB); used0[k] = dels[c][k].used; if (used0[k]) { ++n; V_ASSUME(jobs[dels[c][k].j].numtodo >= 1 && jobs[dels[c][k].j].refs >= 1); } }
  concurrencyused[c] = n; cu0 = n;
  /* the report collected so far: delivery number, status byte, any text; its terminating NUL is what read() delivers */
  dl[0] = ND_CHAR(); dl[1] = ND_CHAR(); dline[c].s = dl; dline[c].a = 16; dline[c].len = ND_UINT(); V_ASSUME(dline[c].len <= REPORTMAX);
  len0 = dline[c].len; st = len0 >= 2 ? dl[1] : 0; dn = (unsigned char)dl[0];
  g_marked = g_bounced = g_spawndied = g_noread = 0; g_closedjob = -1; g_order_ok = 1;
  del_dochan(c);
  if (g_spawndied || g_noread || len0 == 0) { V_ASSERT(!g_marked && !g_bounced && concurrencyused[c] == cu0, "C03: a lost spawner or an empty report marks no recipient as finished"); }
  else {
    int valid = dn < (int)concurrency[c] && used0[dn];
    for (k = 0; k < NSLOT; ++k) if (!(valid && k == dn)) V_ASSERT(dels[c][k].used == used0[k], "C18: a report changes only the delivery slot it names");
    if (!valid) {
      V_ASSERT(!g_marked && !g_bounced && concurrencyused[c] == cu0 && g_closedjob == -1, "C18: out-of-range, unused or malformed reports change no recipient's state");
      for (k = 0; k < NJOB; ++k) V_ASSERT(jobs[k].numtodo == todo0[k], "C18: out-of-range, unused or malformed reports change no recipient's state");
    } else if (len0 >= 1) {
      int j = dels[c][dn].j, perm = st == 'D' || (st == 'Z' && jobs[j].flagdying);
      V_ASSERT(g_marked == (st == 'K' || perm), "C03: a recipient is marked finished exactly for a success or a permanent failure (a temporary failure only on the message's last attempt); never for a deferral or a garbled report");
      if (g_marked) V_ASSERT(g_mark_c == c && g_mark_id == jobs[j].id && g_mark_pos == dels[c][dn].mpos, "C04: the completion mark is written at the offset of the reported recipient, in its message's list");
      V_ASSERT(g_bounced == perm, "C14: every permanent failure (and only those) is recorded in the message's bounce");
      if (g_bounced) V_ASSERT(g_order_ok && g_bounce_id == jobs[j].id && g_bounce_recip == dels[c][dn].recip.s, "C03: the failure is recorded in the bounce before the recipient is marked finished");
      V_ASSERT(jobs[j].numtodo == todo0[j] - (g_marked ? 1 : 0), "C03: supporting: pending count decreases exactly for finished recipients");
      V_ASSERT(dels[c][dn].used == 0 && concurrencyused[c] == cu0 - 1 && g_closedjob == j, "C04: a reported delivery frees exactly its slot");
    }
  }
  V_ASSERT(dline[c].len == 0 || g_spawndied || g_noread || len0 == 0, "C18,C03,C04: the report buffer is reset after each report, accepted or not (bytes of a rejected report are never parsed as part of the next one)");
  V_COVER(g_marked && g_bounced); V_COVER(g_marked && !g_bounced); V_COVER(!g_marked && g_closedjob >= 0);
}
#endif

/* ================= del_start ================= */
#ifdef P_DELSTART
static struct job jobs[NJOB]; static struct del dels[CHANNELS][NSLOT]; static char rc[8];
int g_commwrites, g_cw_slot;
int stralloc_copys(stralloc *sa, char *s) { return ND_BOOL(); } int stralloc_append(stralloc *sa, char *c) { return ND_BOOL(); }
void h_delstart(void)
{
  int j = ND_INT(), c, k, n = 0, used0[NSLOT], refs0, cu0; seek_pos mpos = ND_LONG();
  common_init(); numjobs = NJOB; jo = jobs; d[0] = dels[0]; d[1] = dels[1];
  V_ASSUME(0 <= j && j < NJOB); jobs[j].channel = ND_BOOL(); c = jobs[j].channel; jobs[j].refs = 1 + ND_UINT() % 1000; refs0 = jobs[j].refs; jobs[j].id = g_id;
  concurrency[c] = ND_UINT(); V_ASSUME(concurrency[c] <= NSLOT); flagspawnalive[c] = ND_BOOL();
  for (k = 0; k < NSLOT; ++k) { dels[c][k].used = ND_BOOL(); used0[k] = dels[c][k].used; if (used0[k] && k < (int)concurrency[c]) ++n; }
  concurrencyused[c] = n; cu0 = n; g_commwrites = 0; masterdelid = 1 + ND_ULONG() % 1000000;
  comm_buf[c].s = rc; comm_buf[c].len = ND_BOOL();
  del_start(j, mpos, rc);
  { int taken = -1, cnt = 0; for (k = 0; k < NSLOT; ++k) if (dels[c][k].used != used0[k]) { taken = k; ++cnt; }
    V_ASSERT(cnt <= 1, "C04: one delivery attempt takes at most one slot");
    if (cnt == 1) {
      V_ASSERT(taken < (int)concurrency[c] && !used0[taken] && dels[c][taken].used == 1, "C04: a delivery uses only a free slot below the channel's concurrency limit");
      V_ASSERT(concurrencyused[c] == cu0 + 1 && concurrencyused[c] <= concurrency[c], "C04: the number of outstanding attempts never exceeds the channel's concurrency");
      V_ASSERT(dels[c][taken].j == j && dels[c][taken].mpos == mpos && jobs[j].refs == refs0 + 1, "C04: the slot remembers its message and the mark offset of its recipient");
      V_ASSERT(g_commwrites == 1 && g_cw_slot == taken && flagspawnalive[c], "C04: exactly one delivery command is sent per slot taken, carrying that slot's number");
    } else V_ASSERT(concurrencyused[c] == cu0 && jobs[j].refs == refs0 && g_commwrites == 0, "C04: when no slot is taken nothing is sent and nothing is counted");
  }
  V_COVER(concurrencyused[c] == NSLOT);
}
#endif

/* ================= wake-up computation (C16 P3) ================= */
#ifdef P_SELPREP
static struct job jobs[NJOB]; static struct del dels[CHANNELS][NSLOT];
int g_trigger_selprep;
void trigger_selprep(int *n, fd_set *r) { g_trigger_selprep = 1; }
void h_selprep(void)
{
  datetime_sec w0 = ND_LONG(), w; int k, c, fds = 1; fd_set r;
  common_init(); numjobs = NJOB; jo = jobs; d[0] = dels[0]; d[1] = dels[1];
  for (k = 0; k < NJOB; ++k) jobs[k].refs = ND_BOOL();
  for (c = 0; c < CHANNELS; ++c) { pass[c].id = ND_ULONG(); flagspawnalive[c] = ND_BOOL(); concurrency[c] = ND_UINT() % (NSLOT + 1); concurrencyused[c] = ND_UINT() % (NSLOT + 1); comm_buf[c].s = 0; }
  flagexitasap = 0; tododir = ND_BOOL() ? (DIR *)jobs : 0; nexttodorun = ND_LONG(); flagcleanup = ND_BOOL(); cleanuptime = ND_LONG();
  V_ASSUME(0 <= w0 && w0 < (1L << 41) && 0 <= nexttodorun && 0 <= cleanuptime);
  w = w0;
  pass_selprep(&w);
  V_ASSERT(w <= w0, "C16: computing the next wake-up only ever moves it earlier");
  if (g_min_ok[2]) V_ASSERT(w <= g_min[2].dt, "C16: the daemon never sleeps past the earliest retry of a message whose files could not be examined");
  if (g_min_ok[3]) V_ASSERT(w <= g_min[3].dt, "C16: the daemon never sleeps past the earliest pending completion (bounce/removal retry)");
  for (c = 0; c < CHANNELS; ++c) if (!pass[c].id && g_min_ok[c] && job_avail()) V_ASSERT(w <= g_min[c].dt, "C16: the daemon never sleeps past the earliest due message of a channel it can serve");
  { datetime_sec w1 = w; todo_selprep(&fds, &r, &w); V_ASSERT(w <= w1 && w <= nexttodorun && (!tododir || w == 0), "C16: the daemon never sleeps past the next todo scan, and not at all while a scan is in progress"); }
  { datetime_sec w1 = w; cleanup_selprep(&w); V_ASSERT(w <= w1 && w <= cleanuptime && (!flagcleanup || w == 0), "C16: the daemon never sleeps past the next cleanup run"); }
  V_COVER(w == w0); V_COVER(w == g_min[3].dt && w < w0);
}
#endif

/* ================= main(): start-up ================= */
#ifdef P_MAIN
int g_eintr;
int g_locked, g_lock_failed, g_mutated, g_announced[CHANNELS], g_conf[CHANNELS], g_nread, g_exit = -1, g_jobinit;
int chdir(const char *p) { return ND_BOOL() ? -1 : 0; }
void sig_pipeignore(void) {} void sig_termcatch(void (*f)()) {} void sig_alarmcatch(void (*f)()) {} void sig_hangupcatch(void (*f)()) {} void sig_childdefault(void) {}
mode_t umask(mode_t m) { return 0; }
int open_write(char *f) { return ND_BOOL() ? -1 : 9; }
int lock_exnb(int fd) { if (ND_BOOL()) { g_lock_failed = 1; return -1; } g_locked = 1; return 0; }
ssize_t read(int fd, void *b, size_t n)
{
  int c = fd == chanfdin[0] ? 0 : 1;
  V_ASSERT(g_locked, "C02: nothing is read from the spawners before the queue lock is held");
  if (ND_BOOL()) { if (g_eintr < 2 && ND_BOOL()) { ++g_eintr; errno = EINTR; } else errno = EIO; return -1; }   /* at most two interrupted reads in a row */
  if (ND_BOOL()) return 0;
  g_eintr = 0;
  g_announced[c] = ND_UCHAR(); *(char *)b = (char)g_announced[c]; ++g_nread; return 1;
}
void _exit(int e) { g_exit = e; if (g_lock_failed) V_ASSERT(e == 111 && !g_mutated, "C02: a second daemon instance refuses to touch a queue that already has one"); V_COVER(g_lock_failed); V_ASSUME(0); }
void h_main(void)
{
  g_locked = g_lock_failed = g_mutated = g_nread = g_jobinit = g_eintr = 0;
  concurrency[0] = ND_UINT() % 256; concurrency[1] = ND_UINT() % 256; g_conf[0] = (int)concurrency[0]; g_conf[1] = (int)concurrency[1];
  chanfdin[0] = 2; chanfdin[1] = 4; flagexitasap = 1;
  main();
}
#endif

/* ================= markdone ================= */
#ifdef P_MARKDONE
int g_wrote, g_seek_ok; off_t g_seekpos; char g_wbyte; seek_pos g_pos;
int open_write(char *f) { V_ASSERT(f == fn.s && (g_fn_kind == F_LOCAL || g_fn_kind == F_REMOTE) && g_fn_id == g_id, "C04: the completion mark goes into the recipient list of that message and channel"); return ND_BOOL() ? -1 : 9; }
int fstat(int fd, struct stat *st) { return ND_BOOL() ? -1 : 0; }
off_t lseek(int fd, off_t o, int w) { if (ND_BOOL()) return -1; g_seek_ok = (w == SEEK_SET); g_seekpos = o; return o; }
ssize_t write(int fd, const void *b, size_t n) { V_ASSERT(n == 1 && g_seek_ok && g_seekpos == g_pos && !g_wrote, "C04: exactly one byte is written, at the recipient's mark offset"); g_wbyte = *(const char *)b; g_wrote = 1; return ND_BOOL() ? 1 : -1; }
int close(int fd) { return 0; }
void h_markdone(void)
{
  int c = ND_BOOL(); common_init(); g_pos = ND_LONG(); V_ASSUME(g_pos >= 0); g_wrote = g_seek_ok = 0;
  markdone(c, g_id, g_pos);
  if (g_wrote) V_ASSERT(g_wbyte == 'D' && g_fn_kind == (c ? F_REMOTE : F_LOCAL), "C04: the one-byte completion mark is D");
  V_COVER(g_wrote);
}
#endif

/* ================= todo_do: re-arm before scan (C16 P2) ================= */
#ifdef P_TODO_ARM
int g_armed, g_opendir, g_pulled;
void trigger_set(void) { g_armed = 1; }
int trigger_pulled(fd_set *r) { g_pulled = ND_BOOL(); return g_pulled; }
static int ddummy;
DIR *opendir(const char *n) { V_ASSERT(g_armed, "C16: the trigger is re-armed before the todo directory is opened for a scan (re-arm, then scan: an injection during the scan pulls the new trigger)"); g_opendir = 1; return ND_BOOL() ? (DIR *)&ddummy : 0; }
struct dirent *readdir(DIR *d) { V_ASSERT(d == (DIR *)&ddummy, "C16: supporting"); return 0; }
int closedir(DIR *d) { return 0; }
void h_todo_arm(void)
{
  fd_set r; datetime_sec next0;
  common_init(); g_armed = g_opendir = 0; tododir = 0; nexttodorun = ND_LONG(); next0 = nexttodorun;
  todo_do(&r);
  if (g_pulled || recent >= next0) V_ASSERT(g_opendir, "C16: a pulled trigger (or the periodic deadline) starts a scan at once");
  if (g_opendir && tododir == 0 && 0) ;
  V_COVER(g_opendir && g_pulled);
}
#endif

/* ================= injectbounce ================= */
#ifdef P_INJECT
char *sbuf; unsigned g_slen; int g_opened_qq, g_failed, g_from_set, g_to_set, g_closed_qq, g_close_ok, g_nchunks, g_readerr, g_getinfo, g_bounce_exists;
char *g_from, *g_to; char g_from0;
int qmail_open(struct qmail *q) { if (ND_BOOL()) return -1; g_opened_qq = 1; return 0; }
unsigned long qmail_qp(struct qmail *q) { return 7; }
void qmail_put(struct qmail *q, char *s, size_t n) {} void qmail_fail(struct qmail *q) { g_failed = 1; }
void qmail_from(struct qmail *q, char *s) { g_from_set = 1; g_from = s; g_from0 = s[0]; }
void qmail_to(struct qmail *q, char *s) { V_ASSERT(g_from_set && !g_to_set, "C14: a bounce has exactly one recipient"); g_to_set = 1; g_to = s; }
char *qmail_close(struct qmail *q) { g_closed_qq = 1; g_close_ok = ND_BOOL() && !g_failed; return g_close_ok ? "" : "Zx"; }   /* never "" after qmail_fail (proofs qmail_close/qmail_put) */
int newfield_datemake(datetime_sec t) { return 1; } int quote(stralloc *a, stralloc *b) { return 1; } int quote2(stralloc *a, char *s) { return 1; }
size_t strlen(const char *s) { return ND_UINT() % 100; }
int open_read(char *f) { return ND_BOOL() ? -1 : 12; } int close(int fd) { return 0; }
ssize_t substdio_get(substdio *s, char *b, size_t n) { int r = ND_INT(); if (r == 0) return 0; if (r < 0) { g_readerr = 1; return -1; } g_nchunks = 1; return 1 + ND_UINT() % 128; }   /* any number of chunks (loop contract) */
void h_inject(void)
{
  int r, k, cut; char norm0, isdbl;
  common_init(); g_opened_qq = g_failed = g_from_set = g_to_set = g_closed_qq = g_close_ok = g_nchunks = g_readerr = g_getinfo = 0;
  /* the envelope sender: a C string of ANY length (g_slen bytes with the terminating NUL, up to 2^31) and any content; injectbounce itself reads only
     its first five and last five bytes (every other consumer is a stub), which are constrained to be non-NUL where they lie inside the string */
  g_slen = ND_UINT(); V_ASSUME(g_slen >= 1 && g_slen <= 0x7fffffff); sbuf = malloc(g_slen); V_ASSUME(sbuf != 0); sbuf[g_slen - 1] = 0;
  for (k = 0; k < 5; ++k) { if ((unsigned)k + 1 < g_slen) V_ASSUME(sbuf[k] != 0); if (g_slen >= (unsigned)k + 2) V_ASSUME(sbuf[g_slen - 2 - k] != 0); }
  cut = g_slen >= 5 && sbuf[g_slen - 5] == '-' && sbuf[g_slen - 4] == '@' && sbuf[g_slen - 3] == '[' && sbuf[g_slen - 2] == ']';
  doublebounceto.s = "postmaster@x"; doublebounceto.len = 13; bouncehost.s = "h"; bouncehost.len = 1;
  r = injectbounce(g_id);
  if (!g_getinfo) return;
  { unsigned nlen = cut ? g_slen - 4 : g_slen;   /* normalised sender: a trailing -@[] (VERP marker) removed */
    norm0 = sbuf[0]; if (cut && nlen == 1) norm0 = 0;
    isdbl = nlen == 5 && sbuf[0] == '#' && sbuf[1] == '@' && sbuf[2] == '[' && sbuf[3] == ']';
    if (cut) V_ASSERT(sbuf[nlen - 1] == 0, "C14: per-recipient (VERP) senders receive their bounces at the base address (trailing -@[] removed)");
    if (k_file[F_BOUNCE] == 2) {
      if (isdbl) V_ASSERT(!g_opened_qq, "C14: a failing double bounce is discarded: nothing is queued, so bounce loops are impossible");
      else if (g_opened_qq && g_from_set) {
        if (!norm0) V_ASSERT(g_from0 == '#' && g_from[1] == '@' && g_from[2] == '[' && g_from[3] == ']' && !g_from[4] && g_to == doublebounceto.s, "C14: a failing bounce yields one double bounce to the configured postmaster address with the special sender #@[]");
        else V_ASSERT(g_from0 == 0 && g_to == sbuf, "C14: a bounce is sent with an empty envelope sender to the original envelope sender");
      }
    }
  }
  if (g_nunlink) {
    V_ASSERT(g_nunlink == 1 && g_unlink_kind[0] == F_BOUNCE, "C14: injectbounce removes only the bounce record");
    V_ASSERT((isdbl && !g_opened_qq) || (g_closed_qq && g_close_ok && g_to_set), "C03,C14: the bounce record is removed only after the notice was successfully queued (or for the documented discard of a double bounce)");
  }
  if (g_readerr) V_ASSERT(g_failed, "C14: a read error while copying the record or the message fails the submission");
  V_ASSERT((r == 1) == ((g_nunlink == 1 && g_unlink_ok[0]) || (g_nunlink == 0 && k_file[F_BOUNCE] == 1)), "C03,C02,C14: injectbounce reports success exactly if the bounce record is gone (notice queued and record removed, or discarded and removed) or there was none - info is removed only after that");
  V_COVER(isdbl && r == 1); V_COVER(!norm0 && g_to_set); V_COVER(cut && g_to_set && norm0);
}
#endif

/* ================= addbounce (bounded content) ================= */
#ifdef P_ADDBOUNCE
#define BCAP 40
#define NR 4
#define NP 8
static char bt[BCAP], rcp[NR + 1], rep[NP + 1]; unsigned g_written; int g_wfail, g_ofail, g_closed_b, g_opened_b;
int stralloc_copys(stralloc *sa, char *s) { unsigned k = 0; V_ASSERT(sa == &bouncetext, "C14: supporting"); sa->s = bt; sa->a = BCAP; while (s[k] && k < BCAP) { bt[k] = s[k]; ++k; } sa->len = k; return 1; }
int stralloc_cats(stralloc *sa, char *s) { unsigned k = 0; V_ASSERT(sa == &bouncetext, "C14: supporting"); while (s[k] && sa->len < BCAP) { bt[sa->len++] = s[k]; ++k; } return 1; }
char *constmap(struct constmap *cm, char *s, int len) { return 0; }   /* no virtual-domain prefix in this run (stripvdomprepend: proof send_stripvdom) */
int open_append(char *f) { V_ASSERT(f == fn2.s && g_fn2_kind == F_BOUNCE && g_fn2_id == g_id, "C14: the failure is appended to this message's bounce record"); if (g_ofail < 2 && ND_BOOL()) { ++g_ofail; return -1; } g_opened_b = 1; return 13; }
unsigned int sleep(unsigned int s) { return 0; }
ssize_t write(int fd, const void *p, size_t n)
{
  V_ASSERT(fd == 13 && (const char *)p == bouncetext.s + g_written && n == bouncetext.len - g_written && n >= 1, "C14: every byte of the entry is written exactly once, in order, despite short writes and failures");
  if (g_wfail < 2 && ND_BOOL()) { ++g_wfail; return ND_BOOL() ? 0 : -1; }
  { unsigned w = 1 + ND_UINT() % (unsigned)n; g_written += w; return (ssize_t)w; }
}
int close(int fd) { g_closed_b = 1; V_ASSERT(g_written == bouncetext.len, "C14: the record is closed only after the whole entry was written"); return 0; }
void h_addbounce(void)
{
  unsigned k, n, rl = ND_UINT() % (NR + 1), pl = ND_UINT() % (NP + 1), hdr; int seenblank = 0;
  common_init(); g_written = 0; g_wfail = g_ofail = g_closed_b = g_opened_b = 0; bouncetext.s = 0; bouncetext.len = 0;
  for (k = 0; k < NR; ++k) { rcp[k] = ND_CHAR(); if (k < rl) V_ASSUME(rcp[k] != 0 && rcp[k] != '@'); } rcp[rl] = 0;
  for (k = 0; k < NP; ++k) { rep[k] = ND_CHAR(); if (k < pl) V_ASSUME(rep[k] != 0); } rep[pl] = 0;
  addbounce(g_id, rcp, rep);
  n = bouncetext.len; hdr = 1 + rl + 3;
  V_ASSERT(g_closed_b && n >= hdr + 1 && n < BCAP, "C14: supporting: entry written");
  V_ASSERT(bt[0] == '<' && bt[1 + rl] == '>' && bt[2 + rl] == ':' && bt[3 + rl] == '\n', "C14: each entry starts with the failed recipient in angle brackets on a line of its own");
  for (k = 1; k <= rl; ++k) V_ASSERT(bt[k] != '\n', "C14: the recipient part contains no line break");
  V_ASSERT(bt[n - 1] == '\n' && bt[n - 2] == '\n', "C14: each entry ends with a blank line (one paragraph per recipient)");
  for (k = 1; k < n; ++k) { if (seenblank) V_ASSERT(bt[k] == '\n', "C14: whatever bytes the failure text contains, nothing but line ends follows a blank line inside an entry: report text cannot forge a further recipient paragraph"); if (bt[k] == '\n' && bt[k - 1] == '\n') seenblank = 1; }
  V_COVER(pl == NP && rl == NR); V_COVER(pl >= 2 && rep[0] == '\n' && rep[1] == '\n');
}
#endif

/* ================= addbounce, unbounded (loop contracts; any recipient, any report) ================= */
#ifdef P_ADDBOUNCE_U
/* bouncetext is ONE allocation of arbitrary capacity g_cap; the stralloc stubs append without copying contents (whatever the buffer holds
   stands for "any bytes of the recipient / of the report"), except the bytes the code itself inspects elsewhere (last byte of the report).
   g_K (arbitrary) replaces "for every position". */
#include <stdlib.h>
char *g_bt, *g_rep, *g_rcp; unsigned g_cap, g_np, g_K, g_hdr, g_written; int g_stage, g_wfail, g_ofail, g_closed_b, g_opened_b, g_nl_added;
static int room(unsigned add) { return (unsigned long)bouncetext.len + add + 16 <= g_cap; }
int stralloc_copys(stralloc *sa, char *s) { V_ASSERT(sa == &bouncetext && g_stage == 0 && s[0] == '<' && !s[1], "C14: each entry starts with <"); bouncetext.s = g_bt; bouncetext.a = g_cap; bouncetext.len = 0; V_ASSUME(room(1)); g_bt[0] = '<'; bouncetext.len = 1; g_stage = 1; return 1; }
int stralloc_cats(stralloc *sa, char *s)
{
  V_ASSERT(sa == &bouncetext && bouncetext.s == g_bt, "C14: supporting");
  if (g_stage == 1) { unsigned n = ND_UINT(); V_ASSERT(s == g_rcp, "C14: the entry names the failed recipient (virtual-domain prefix removed by stripvdomprepend)"); V_ASSUME(room(n)); bouncetext.len += n; g_stage = 2; return 1; }
  if (g_stage == 2) {
    V_ASSERT(s[0] == '>' && s[1] == ':' && s[2] == '\n' && !s[3], "C14: the recipient is followed by >: and a line end");
    V_ASSERT(g_bt[0] == '<' && (!(1 <= g_K && g_K < bouncetext.len) || g_bt[g_K] != '\n'), "C14: the recipient part contains no line break (it occupies one line, whatever bytes the address contains)");
    g_bt[bouncetext.len] = '>'; g_bt[bouncetext.len + 1] = ':'; g_bt[bouncetext.len + 2] = '\n'; bouncetext.len += 3; g_hdr = bouncetext.len; g_stage = 3; return 1; }
  if (g_stage == 3) { V_ASSERT(s == g_rep, "C14: the failure text follows the recipient line"); V_ASSUME(room(g_np)); bouncetext.len += g_np; if (g_np) g_bt[bouncetext.len - 1] = g_rep[g_np - 1]; g_stage = 4; return 1; }
  V_ASSERT(s[0] == '\n' && !s[1], "C14: supporting: only line ends are appended after the report");
  if (g_stage == 4 && !g_nl_added && g_np && g_rep[g_np - 1] != '\n') { g_nl_added = 1; g_bt[bouncetext.len++] = '\n'; return 1; }   /* report did not end its last line */
  V_ASSERT(g_stage == 4, "C14: supporting: exactly one closing line end after the report");
  V_ASSERT(bouncetext.len >= g_hdr && g_bt[bouncetext.len - 1] == '\n', "C14: each entry ends with a blank line (the text ends its last line, then one empty line)");
  V_ASSERT(!(1 <= g_K && g_K + 2 <= bouncetext.len) || !(g_bt[g_K] == '\n' && g_bt[g_K - 1] == '\n'), "C14: whatever bytes the failure text contains, no blank line occurs inside an entry: report text cannot forge a further recipient paragraph");
  V_ASSERT(g_bt[0] == '<' && g_bt[g_hdr - 3] == '>' && g_bt[g_hdr - 2] == ':' && g_bt[g_hdr - 1] == '\n' && (!(1 <= g_K && g_K + 3 < g_hdr) || g_bt[g_K] != '\n'), "C14: each entry starts with the failed recipient in angle brackets on a line of its own");
  g_bt[bouncetext.len++] = '\n'; g_stage = 6; return 1;
}
size_t strlen(const char *x) { V_ASSERT(x == g_rep, "C14: supporting"); return g_np; }
int open_append(char *f) { V_ASSERT(g_stage == 6 && f == fn2.s && g_fn2_kind == F_BOUNCE && g_fn2_id == g_id, "C14: the failure is appended to this message's bounce record"); if (ND_BOOL()) return -1; g_opened_b = 1; return 13; }
unsigned int sleep(unsigned int x) { return 0; }
ssize_t write(int fd, const void *p, size_t n)
{
  V_ASSERT(fd == 13 && (const char *)p == g_bt + g_written && n == bouncetext.len - g_written && n >= 1, "C14: every byte of the entry is written exactly once, in order, despite short writes and failures");
  if (ND_BOOL()) return ND_BOOL() ? 0 : -1;
  { unsigned w = ND_UINT(); V_ASSUME(1 <= w && w <= (unsigned)n); g_written += w; return (ssize_t)w; }
}
int close(int fd) { g_closed_b = 1; V_ASSERT(g_written == bouncetext.len, "C14: the record is closed only after the whole entry was written"); return 0; }
void h_addbounce_u(void)
{
  unsigned nr = ND_UINT();
  common_init(); g_written = 0; g_stage = g_wfail = g_ofail = g_closed_b = g_opened_b = g_nl_added = 0; bouncetext.s = 0; bouncetext.len = 0; bouncetext.a = 0;
  g_cap = ND_UINT(); g_np = ND_UINT(); g_K = ND_UINT(); V_ASSUME(g_cap >= 32 && g_cap <= 0x7fffffff && g_np <= 0x3fffffff && nr <= 0x3fffffff && g_K <= 0x7ffffff0);
  g_bt = malloc(g_cap); g_rep = malloc((size_t)g_np + 1); g_rcp = malloc((size_t)nr + 1); V_ASSUME(g_bt && g_rep && g_rcp); g_rep[g_np] = 0; g_rcp[nr] = 0;
  if (g_np) V_ASSUME(g_rep[0] != 0 && g_rep[g_np - 1] != 0);
  addbounce(g_id, g_rcp, g_rep);
  V_ASSERT(g_closed_b && g_stage == 6, "C14: supporting: entry written");
  V_COVER(g_np > 5 && g_nl_added && g_K == 7 && g_hdr == 6); V_COVER(g_np == 0);
}
#endif

/* ================= rewrite(): routing (C10) ================= */
#ifdef P_REWRITE
#ifndef AB
#define AB 64
#endif
static char ab[AB]; static char recipbuf[4];
stralloc *g_addr; unsigned g_len0; int g_noat, g_fail, g_phase;   /* phase 0 start, 1 percent loop, 2 locals asked, 3 vdoms */
int g_pct_hits, g_loc_probes, g_loc_hit, g_vd_last, g_vd_hit, g_vd_hit_off, g_vd_empty, g_K, g_K_probed; unsigned g_at_final, g_len_final;
char *g_vd_val; static char valbuf[4] = { 'v', 0, 0, 0 }, emptyval[1] = { 0 };
int g_rw[6], g_nrw; char *g_rwp[6];   /* operations on rwline: 1 copys T, 2 cat addr, 3 append NUL, 4 cats value, 5 cats "-" */
int stralloc_copys(stralloc *sa, char *s)
{
  if (ND_BOOL()) { g_fail = 1; return 0; }
  if (sa == &rwline) { V_ASSERT(s[0] == 'T' && !s[1] && g_nrw == 0, "C10: a rewritten recipient record starts with T"); g_rw[g_nrw++] = 1; return 1; }
  V_ASSERT(s == recipbuf, "C10: supporting: the address is copied from the recipient"); g_addr = sa; sa->s = ab; sa->a = AB; sa->len = g_len0; return 1;
}
int stralloc_cats(stralloc *sa, char *s)
{
  if (ND_BOOL()) { g_fail = 1; return 0; }
  if (sa == &rwline) { V_ASSERT(g_nrw < 6, "C10: supporting"); if (s[0] == '-' && !s[1]) g_rw[g_nrw] = 5; else { g_rw[g_nrw] = 4; g_rwp[g_nrw] = s; } ++g_nrw; return 1; }
  V_ASSERT(sa == g_addr && s[0] == '@' && !s[1] && g_noat && sa->len + 1 < AB, "C10: the default host is appended only to addresses without @"); ab[sa->len++] = '@'; return 1;
}
int stralloc_cat(stralloc *sa, stralloc *sb)
{
  if (ND_BOOL()) { g_fail = 1; return 0; }
  if (sa == &rwline) { V_ASSERT(sb == g_addr && g_nrw < 6, "C10: the record carries the rewritten address"); g_rw[g_nrw++] = 2; return 1; }
  V_ASSERT(sa == g_addr && sb == &envnoathost && g_noat && ab[sa->len - 1] == '@', "C10: addresses without @ get the configured default host");
  { unsigned n = 1 + ND_UINT() % 8, k; V_ASSUME(sa->len + n < AB); for (k = 0; k < 8; ++k) if (k < n) V_ASSUME(ab[sa->len + k] != '@' && ab[sa->len + k] != 0); sa->len += n; }
  return 1;
}
int stralloc_append(stralloc *sa, char *c) { if (ND_BOOL()) { g_fail = 1; return 0; } V_ASSERT(sa == &rwline && !*c && g_nrw < 6, "C10: supporting"); g_rw[g_nrw++] = 3; return 1; }
/* contract of byte_rchr (proof byte_rchr): index of the LAST occurrence in s[0..n), n if none */
unsigned int byte_rchr(char *s, unsigned int n, int c)
{
  unsigned j = ND_UINT();
  V_ASSERT(s == ab && n <= AB, "C10: supporting: scans stay inside the address");
  V_ASSUME(j <= n && (j == n || ab[j] == (char)c));
  V_ASSUME(__CPROVER_forall { unsigned k; (k < AB) ==> ((k < n && (j == n || k > j)) ==> ab[k] != (char)c) });
  if (g_phase == 0 && c == '@' && j == n) g_noat = 1;
  return j;
}
char *constmap(struct constmap *cm, char *s, int len)
{
  long off = s - ab; unsigned alen = g_addr->len;
  V_ASSERT(__CPROVER_same_object(s, ab) && off >= 0 && off + len == (long)alen && alen <= AB, "C10: every lookup key is a suffix of the (rewritten) address");
  if (cm == &mappercenthack) {
    V_ASSERT(g_phase <= 1 && off >= 1 && ab[off - 1] == '@', "C10: the percent hack is decided on the domain (the part after an @), before anything else");
    g_phase = 1; if (ND_BOOL()) { if (g_pct_hits < 2) ++g_pct_hits; return "x"; } return 0;
  }
  if (cm == &maplocals) {
    V_ASSERT(g_phase <= 1 && g_loc_probes == 0, "C10: locals is consulted exactly once, after the percent hack and before virtualdomains");
    V_ASSERT(off >= 1 && ab[off - 1] == '@', "C10: locals is matched against the domain after the last @");
    V_ASSERT(__CPROVER_forall { unsigned k; (k < AB) ==> ((k >= (unsigned)off && k < alen) ==> ab[k] != '@') }, "C10: locals is matched against the domain after the last @");
    g_phase = 2; ++g_loc_probes; g_at_final = (unsigned)off - 1; g_len_final = alen;
    if (ND_BOOL()) { g_loc_hit = 1; return "x"; } return 0;
  }
  V_ASSERT(cm == &mapvdoms && g_phase >= 2 && !g_loc_hit && !g_vd_hit, "C10: virtualdomains is consulted only if the domain is not local, and nothing after a hit");
  g_phase = 3;
  V_ASSERT(off == 0 || (unsigned)off == g_at_final + 1 || (unsigned)off == alen || ((unsigned)off > g_at_final && ab[off] == '.'), "C10: virtualdomains candidates are the full address, the domain, its dot-suffixes and the empty catch-all");
  V_ASSERT(off > g_vd_last, "C10: virtualdomains candidates are tried from the most specific to the least, each once");
  g_vd_last = (int)off; if (off == g_K) g_K_probed = 1;
  if (ND_BOOL()) { g_vd_hit = 1; g_vd_hit_off = (int)off; g_vd_empty = ND_BOOL(); g_vd_val = g_vd_empty ? emptyval : valbuf; return g_vd_val; }
  return 0;
}
void h_rewrite(void)
{
  int r; unsigned k;
  common_init(); g_len0 = 1 + ND_UINT() % (AB - 12); g_noat = g_fail = g_phase = g_pct_hits = g_loc_probes = g_loc_hit = g_vd_hit = g_nrw = g_K_probed = 0; g_vd_last = -1;
  g_K = ND_INT(); __CPROVER_havoc_object(ab);
  valbuf[0] = 'v'; valbuf[1] = 0; emptyval[0] = 0;    /* DFCC makes statics nondeterministic */
  V_ASSUME(__CPROVER_forall { unsigned k; (k < AB) ==> ((k < g_len0) ==> ab[k] != 0) });
  r = rewrite(recipbuf);
  if (g_fail) { V_ASSERT(r == 0, "C10: supporting: out of memory is reported"); return; }
  V_ASSERT(r == 1 || r == 2, "C10: every recipient is classified as local (1) or remote (2): none is dropped");
  V_ASSERT(g_loc_probes == 1, "C10: locals is consulted exactly once, after the percent hack and before virtualdomains");
  if (g_loc_hit) V_ASSERT(r == 1 && g_nrw == 3 && g_rw[0] == 1 && g_rw[1] == 2 && g_rw[2] == 3, "C10: a domain listed as local wins: local, address unprefixed");
  else if (g_vd_hit && !g_vd_empty) V_ASSERT(r == 1 && g_nrw == 5 && g_rw[0] == 1 && g_rw[1] == 4 && g_rwp[1] == g_vd_val && g_rw[2] == 5 && g_rw[3] == 2 && g_rw[4] == 3, "C10: the most specific virtual-domain entry prepends its tag and makes the address local");
  else V_ASSERT(r == 2 && g_nrw == 3 && g_rw[0] == 1 && g_rw[1] == 2 && g_rw[2] == 3, "C10: an empty tag (or no entry) leaves the address remote and unprefixed");
  if (!g_loc_hit && 0 <= g_K && (unsigned)g_K <= g_len_final && (!g_vd_hit || g_K < g_vd_hit_off) &&
      (g_K == 0 || (unsigned)g_K == g_at_final + 1 || (unsigned)g_K == g_len_final || ((unsigned)g_K > g_at_final && ab[g_K] == '.')))
    V_ASSERT(g_K_probed, "C10: no more specific virtual-domain candidate was skipped (full address, then domain, then successively shorter dot-suffixes, then catch-all)");
  V_COVER(g_pct_hits >= 2 && r == 2); V_COVER(g_vd_hit && !g_vd_empty && g_vd_hit_off > 3); V_COVER(g_noat && r == 1);
}
#endif

/* ================= regetcontrols (HUP) ================= */
#ifdef P_REGET
int g_rl, g_rv, g_frees, g_init_l, g_init_v, g_copied_l, g_copied_v;
int control_readfile(stralloc *sa, char *fn, int flagme) { if (sa == &newlocals) { g_rl = ND_BOOL() ? 1 : (ND_BOOL() ? 0 : -1); return g_rl; } V_ASSERT(sa == &newvdoms, "C10: supporting"); g_rv = ND_BOOL() ? 1 : (ND_BOOL() ? 0 : -1); return g_rv; }
void constmap_free(struct constmap *cm) { V_ASSERT(g_rl == 1 && g_rv != -1, "C10: if the control files cannot be re-read the old tables stay in force"); ++g_frees; }
int stralloc_copy(stralloc *a, stralloc *b) { if (a == &locals) { V_ASSERT(b == &newlocals, "C10: supporting"); g_copied_l = 1; a->len = b->len; } else { V_ASSERT(a == &vdoms && b == &newvdoms, "C10: supporting"); g_copied_v = 1; a->len = b->len; } return 1; }
int constmap_init(struct constmap *cm, char *s, int len, int flagcolon)
{
  if (cm == &maplocals) { V_ASSERT(g_copied_l && s == locals.s && (unsigned)len == locals.len && flagcolon == 0, "C10: after a HUP the locals table is rebuilt from the whole newly read control/locals"); g_init_l = 1; }
  else { V_ASSERT(cm == &mapvdoms && flagcolon == 1, "C10: supporting: virtualdomains entries are key:value");
    if (g_rv == 1) V_ASSERT(g_copied_v && s == vdoms.s && (unsigned)len == vdoms.len, "C10: after a HUP the virtualdomains table is rebuilt from the whole newly read control/virtualdomains");
    else V_ASSERT(len == 0, "C10: a removed virtualdomains file empties the table"); g_init_v = 1; }
  return 1;
}
void h_reget(void)
{
  static char lb[8], vb[8], nlb[8], nvb[8];
  common_init(); g_frees = g_init_l = g_init_v = g_copied_l = g_copied_v = 0; g_rl = g_rv = -2;
  locals.s = lb; vdoms.s = vb; newlocals.s = nlb; newvdoms.s = nvb; locals.len = ND_UINT(); vdoms.len = ND_UINT(); newlocals.len = ND_UINT(); newvdoms.len = ND_UINT();
  regetcontrols();
  if (g_rl == 1 && g_rv != -1) V_ASSERT(g_init_l && g_init_v && g_frees == 2, "C10: after a successful re-read both tables are rebuilt");
  else V_ASSERT(!g_init_l && !g_init_v && !g_frees, "C10: if the control files cannot be re-read the old tables stay in force");
  V_COVER(g_init_v && g_rv == 1);
}
#endif

/* ================= todo_do: preprocessing of one new message ================= */
#ifdef P_TODO
#include <dirent.h>
static struct dirent de; static int ddummy; static char tl[16], rwb[8];
int g_phase;  /* 0 before reading, 1 reading records, 2 after EOF */
int g_eof, g_readerr, g_pendingT, g_verdict, g_F_written, g_info_created, g_info_dirty, g_info_synced, g_info_closed, g_todo_closed;
int g_chan_created[CHANNELS], g_chan_dirty[CHANNELS], g_chan_synced[CHANNELS], g_chan_closed[CHANNELS], g_nT[CHANNELS], g_requested, g_clean_ok, g_fail_seen, g_mess_stat;
void trigger_set(void) {} int trigger_pulled(fd_set *r) { return 1; }
DIR *opendir(const char *n) { return (DIR *)&ddummy; }
struct dirent *readdir(DIR *d) { de.d_name[0] = '1'; de.d_name[1] = '2'; de.d_name[2] = 0; return &de; }
int closedir(DIR *d) { return 0; }
unsigned int scan_ulong(char *s, unsigned long *u) { if (s == de.d_name) { *u = g_id; return 2; } *u = ND_ULONG(); return ND_UINT() % 8; }
int open_read(char *f) { V_ASSERT(f == fn.s && g_fn_kind == F_TODO && g_fn_id == g_id, "C03: supporting: the todo file of this message is read"); if (ND_BOOL()) { V_HAVOC_ERRNO(); return -1; } return 19; }
int open_excl(char *f)
{
  V_ASSERT(f == fn.s && g_fn_id == g_id, "C02: supporting: files of this message only");
  if (g_fn_kind == F_INFO) { V_ASSERT(k_file[F_INFO] == 1 && k_file[F_LOCAL] == 1 && k_file[F_REMOTE] == 1, "C02: info is created only after stale info/local/remote files of an interrupted earlier attempt were removed"); if (ND_BOOL()) { g_fail_seen = 1; V_HAVOC_ERRNO(); return -1; } g_info_created = 1; k_file[F_INFO] = 2; return 20; }
  { int c = g_fn_kind == F_LOCAL ? 0 : 1; V_ASSERT(g_fn_kind == F_LOCAL || g_fn_kind == F_REMOTE, "C02: supporting"); V_ASSERT(g_info_created && !g_chan_created[c], "C02: a recipient list is created once, after info");
    if (ND_BOOL()) { g_fail_seen = 1; V_HAVOC_ERRNO(); return -1; } g_chan_created[c] = 1; return 21 + c; }
}
int getln(substdio *ss, stralloc *sa, int *match, int sep)
{
  V_ASSERT(ss->fd == 19 && sa == &todoline && sep == 0, "C03: supporting: records of the todo file");
  V_ASSERT(!g_pendingT, "C03,C10: every recipient record read is written to a channel list before the next record is read (none dropped, order kept)");
  V_ASSERT(!g_eof, "C03: supporting: nothing is read after the end of the file");
  g_phase = 1;
  if (ND_BOOL()) { g_readerr = 1; g_fail_seen = 1; V_HAVOC_ERRNO(); return -1; }
  if (ND_BOOL()) { g_eof = 1; g_phase = 2; *match = 0; sa->s = tl; sa->len = ND_UINT() % 16; return 0; }
  tl[0] = ND_CHAR(); sa->s = tl; sa->a = 16; sa->len = 1 + ND_UINT() % 1000; *match = 1;
  if (tl[0] == 'T') g_pendingT = 1;
  return 0;
}
int substdio_putflush(substdio *s, const char *b, size_t n)
{
  if (s == &sstoqc) {
    V_ASSERT(b == fn.s && g_fn_kind == F_TODO && g_fn_id == g_id, "C02: qmail-clean is asked to remove todo/<id> (and intd/<id>) of this message");
    V_ASSERT(g_eof && !g_readerr && !g_pendingT && !g_fail_seen, "C03: the todo entry is removed only after the whole envelope was read without error and every recipient was written");
    V_ASSERT(g_info_created && !g_info_dirty && g_info_synced && g_info_closed, "C03: the todo entry is removed only after info was flushed, fsynced and closed");
    { int c; for (c = 0; c < CHANNELS; ++c) V_ASSERT(!g_chan_created[c] || (!g_chan_dirty[c] && g_chan_synced[c] && g_chan_closed[c]), "C03: the todo entry is removed only after every recipient list was flushed, fsynced and closed"); }
    g_requested = 1; return ND_BOOL() ? -1 : 0;
  }
  V_ASSERT(s->fd == 20 && b == todoline.s && tl[0] == 'F', "C10: supporting: the sender record goes to info");
  if (ND_BOOL()) { g_fail_seen = 1; V_HAVOC_ERRNO(); return -1; }
  g_F_written = 1; g_info_synced = 0; return 0;
}
int substdio_bput(substdio *s, const char *b, size_t n)
{
  int c = s->fd - 21;
  V_ASSERT((c == 0 || c == 1) && g_chan_created[c] && b == rwline.s, "C10: supporting: rewritten recipients go to a created channel list");
  V_ASSERT(g_pendingT && c == (g_verdict == 2 ? 1 : 0), "C10,C03: every recipient is written to exactly the channel its classification says (local or remote), once");
  g_pendingT = 0;
  if (ND_BOOL()) { g_fail_seen = 1; V_HAVOC_ERRNO(); return -1; }
  g_chan_dirty[c] = 1; g_chan_synced[c] = 0; if (g_nT[c] < 1000) ++g_nT[c]; return 0;
}
int substdio_flush(substdio *s) { int f = s->fd; if (ND_BOOL()) { g_fail_seen = 1; V_HAVOC_ERRNO(); return -1; } if (f == 20) g_info_dirty = 0; else if (f == 21 || f == 22) g_chan_dirty[f - 21] = 0; return 0; }
int fsync(int fd) { if (ND_BOOL()) { g_fail_seen = 1; V_HAVOC_ERRNO(); return -1; } if (fd == 20 && !g_info_dirty) g_info_synced = 1; if ((fd == 21 || fd == 22) && !g_chan_dirty[fd - 21]) g_chan_synced[fd - 21] = 1; return 0; }
int close(int fd) { if (fd == 20) g_info_closed = 1; if (fd == 21 || fd == 22) g_chan_closed[fd - 21] = 1; if (fd == 19) g_todo_closed = 1; return 0; }
ssize_t substdio_get(substdio *s, char *b, size_t n) { V_ASSERT(s == &ssfromqc && g_requested, "C02: supporting"); if (ND_BOOL()) return 0; *b = ND_BOOL() ? '+' : 'x'; g_clean_ok = (*b == '+'); return 1; }
void h_todo(void)
{
  fd_set r; int c, n = 0;
  common_init(); tododir = 0; nexttodorun = 0;
  g_phase = g_eof = g_readerr = g_pendingT = g_F_written = g_info_created = g_info_dirty = g_info_synced = g_info_closed = g_todo_closed = g_requested = g_clean_ok = g_fail_seen = 0;
  for (c = 0; c < CHANNELS; ++c) g_chan_created[c] = g_chan_dirty[c] = g_chan_synced[c] = g_chan_closed[c] = g_nT[c] = 0;
  rwline.s = rwb; rwline.len = 1 + ND_UINT() % 1000; todoline.s = tl; chanaddr[0] = "local/"; chanaddr[1] = "remote/";   /* DFCC havocs statics */
  todo_do(&r);
  if (g_nins) {
    V_ASSERT(g_requested && g_clean_ok, "C03: a message enters the delivery queues only after its todo entry was removed");
    for (c = 0; c < CHANNELS; ++c) { int found = 0, i; for (i = 0; i < g_nins; ++i) if (g_ins_q[i] == &pqchan[c]) { ++found; V_ASSERT(g_ins_id[i] == g_id, "C03: supporting"); }
      V_ASSERT(found == (g_chan_created[c] != 0), "C03: a preprocessed message is scheduled on exactly the channels that got a recipient list"); n += found; }
    if (!n) V_ASSERT(g_nins == 1 && g_ins_q[0] == &pqdone, "C03: a message without recipients is queued for completion");
  } else if (g_requested && g_clean_ok) V_ASSERT(0, "C03: once its todo entry is gone a message is always scheduled (never forgotten)");
  V_COVER(g_nins == 2); V_COVER(g_requested && g_nT[0] > 1 && g_nT[1] > 0); V_COVER(g_fail_seen && g_info_created);
}
#endif

/* ================= senderadd: per-recipient (VERP) sender expansion (C10) ================= */
#ifdef P_SENDERADD
#define NS 10
static char snd[NS + 1], rcp[NS + 1]; stralloc g_out; int g_np; const char *g_pp[8]; unsigned g_pl[8]; int g_pk[8];   /* pieces appended: pointer, length, kind 1 catb 2 cats */
int stralloc_catb(stralloc *sa, char *s, unsigned int n) { V_ASSERT(sa == &g_out && g_np < 8, "C10: supporting"); g_pp[g_np] = s; g_pl[g_np] = n; g_pk[g_np] = 1; ++g_np; return 1; }
int stralloc_cats(stralloc *sa, char *s) { V_ASSERT(sa == &g_out && g_np < 8, "C10: supporting"); g_pp[g_np] = s; g_pl[g_np] = 0; g_pk[g_np] = 2; ++g_np; return 1; }
void h_senderadd(void)
{
  unsigned sl = ND_UINT() % (NS + 1), rl = ND_UINT() % (NS + 1), k; int lastat_s = -1, lastat_r = -1, verp;
  for (k = 0; k < NS; ++k) { snd[k] = ND_CHAR(); rcp[k] = ND_CHAR(); if (k < sl) V_ASSUME(snd[k] != 0); if (k < rl) V_ASSUME(rcp[k] != 0); }
  snd[sl] = 0; rcp[rl] = 0; g_np = 0;
  verp = sl >= 4 && snd[sl - 4] == '-' && snd[sl - 3] == '@' && snd[sl - 2] == '[' && snd[sl - 1] == ']';
  if (verp) for (k = 0; k + 4 < sl; ++k) if (snd[k] == '@') lastat_s = (int)k;
  for (k = 0; k < rl; ++k) if (rcp[k] == '@') lastat_r = (int)k;
  senderadd(&g_out, snd, rcp);
  if (verp && lastat_s >= 0 && lastat_r >= 0) {
    /* owner-@host-@[]  ->  owner- recipbox = reciphost @ host */
    V_ASSERT(g_np == 6, "C10: a per-recipient (VERP) sender is expanded into six pieces");
    V_ASSERT(g_pp[0] == snd && g_pl[0] == (unsigned)lastat_s && g_pk[0] == 1, "C10: VERP: first the sender up to its last @ before the marker");
    V_ASSERT(g_pp[1] == rcp && g_pl[1] == (unsigned)lastat_r && g_pk[1] == 1, "C10: VERP: then the recipient's mailbox");
    V_ASSERT(g_pk[2] == 2 && g_pp[2][0] == '=' && !g_pp[2][1], "C10: VERP: then =");
    V_ASSERT(g_pk[3] == 2 && g_pp[3] == rcp + lastat_r + 1, "C10: VERP: then the recipient's host");
    V_ASSERT(g_pk[4] == 2 && g_pp[4][0] == '@' && !g_pp[4][1], "C10: VERP: then @");
    V_ASSERT(g_pk[5] == 1 && g_pp[5] == snd + lastat_s + 1 && g_pl[5] == sl - 5 - (unsigned)lastat_s, "C10: VERP: then the sender's host without the -@[] marker");
  } else
    V_ASSERT(g_np == 1 && g_pk[0] == 2 && g_pp[0] == snd, "C10: every other sender is passed on unchanged");
  V_COVER(verp && lastat_s >= 0 && lastat_r >= 0); V_COVER(verp && lastat_r < 0);
}
#endif

/* ================= stripvdomprepend: the virtual-domain prefix is removed from a bounced recipient (C14) ================= */
#ifdef P_STRIPV
#define NR 9
static char rcp[NR + 1], pre[4]; int g_np, g_hit = -1; char *g_pp[NR + 2]; int g_pl[NR + 2]; char *g_ret;
char *constmap(struct constmap *cm, char *s, int len)
{
  V_ASSERT(cm == &mapvdoms && g_np < NR + 2 && g_hit < 0, "C14: supporting: the virtual-domain table is not consulted again after its first hit");
  g_pp[g_np] = s; g_pl[g_np] = len;
  if (ND_BOOL()) { g_hit = g_np; g_ret = ND_BOOL() ? pre : ""; } else g_ret = 0;
  ++g_np; return g_ret;
}
void h_stripv(void)
{
  unsigned rl = ND_UINT() % (NR + 1), pl = ND_UINT() % 4, k, dl, n = 0; int at = -1; char *r, *dom;
  for (k = 0; k < NR; ++k) { rcp[k] = ND_CHAR(); if (k < rl) V_ASSUME(rcp[k] != 0); }
  rcp[rl] = 0; for (k = 0; k < 3; ++k) { pre[k] = ND_CHAR(); if (k < pl) V_ASSUME(pre[k] != 0); } pre[pl] = 0;
  for (k = 0; k < rl; ++k) if (rcp[k] == '@') at = (int)k;
  g_np = 0; g_hit = -1;
  r = stripvdomprepend(rcp);
  if (at < 0) { V_ASSERT(r == rcp && g_np == 0, "C14: a recipient without a domain is named as it is"); return; }
  dom = rcp + at + 1; dl = rl - (unsigned)at - 1;
  /* probes: the whole domain, then every .suffix, then the empty catch-all - in this order, longest first */
  for (k = 0; k <= dl; ++k)
    if (k == 0 || k == dl || dom[k] == '.') {
      if (g_hit >= 0 && n > (unsigned)g_hit) break;
      V_ASSERT(n < (unsigned)g_np && g_pp[n] == dom + k && g_pl[n] == (int)(dl - k), "C14: virtualdomains is consulted with the domain, then each .suffix, then the catch-all");
      ++n;
    }
  V_ASSERT(n == (unsigned)g_np, "C14: supporting: no other lookups");
  if (g_hit >= 0 && g_ret == pre && pl > 0) {
    int m = 1; for (k = 0; k < pl; ++k) if (rcp[k] != pre[k]) m = 0;
    if (m && rcp[pl] == '-') V_ASSERT(r == rcp + pl + 1, "C14: a recipient carrying the virtual-domain prefix and - is named without them in the bounce");
    else V_ASSERT(r == rcp, "C14: a recipient that does not carry the prefix is named as it is");
    V_COVER(m && rcp[pl] == '-' && g_hit == 1);
  } else
    V_ASSERT(r == rcp, "C14: without a virtual-domain prefix the recipient is named as it is");
  V_COVER(g_hit < 0 && g_np == 3);
}
#endif

/* ================= del_dochan: framing of the report stream (C18, C04) ================= */
#ifdef P_DELFRAME
/* Any number of reports and report fragments per read, from any state of the slot table; the specification of
 * what a complete report does to its slot is proof send_del_report, here: where reports begin and end, truncation,
 * that only a complete report naming a used slot in range reaches markdone/addbounce/job_close, and that the
 * count of outstanding deliveries keeps matching the slot table. */
static struct job jobs[NJOB]; static struct del dels[CHANNELS][NSLOT]; static char dl[REPORTMAX + 1];
int g_c, g_r, g_app, g_needs_close, g_close_j, g_zcat, g_reports, g_trunc, g_after;
ssize_t read(int fd, void *b, size_t n) { long r = ND_LONG(); V_ASSERT(b == (void *)delbuf && n == sizeof delbuf, "C18: supporting: reports are read into delbuf"); __CPROVER_havoc_object(delbuf); V_ASSUME(-1 <= r && r <= (long)sizeof delbuf); g_r = (int)r; return r; }
int stralloc_cats(stralloc *sa, char *s) { V_ASSERT(sa == &dline[g_c] && g_needs_close, "C18: supporting"); sa->len += 70; g_zcat = 1; return 1; }
int stralloc_append(stralloc *sa, char *p)
{
  V_ASSERT(sa == &dline[g_c], "C18: supporting: a channel's reports are collected in its own buffer");
  if (g_zcat) { g_zcat = 0; ++sa->len; return 1; }   /* the NUL after the too-long-in-queue text */
  V_ASSERT(!g_needs_close, "C18: a complete report is processed before the next byte is stored");
  V_ASSERT(0 <= g_app && g_app < g_r && *p == delbuf[g_app], "C18: every byte of the report stream is stored unchanged and in order");
  V_ASSERT(sa->len <= REPORTMAX, "C18: oversized reports are truncated");
  if (g_after) { V_ASSERT(sa->len == 0, "C18,C03,C04: after a complete report - accepted or not - the next one starts in an empty buffer"); g_after = 0; }
  if (sa->len == REPORTMAX) g_trunc = 1;
  sa->s[sa->len] = *p; ++sa->len; ++g_app;
  if (!*p && sa->len > 1) {   /* a report is complete: delivery number byte, at least one more byte, NUL */
    int dn = (unsigned char)sa->s[0];
    if (g_reports < 100) ++g_reports;
    g_after = 1;
    if (dn < (int)concurrency[g_c] && dels[g_c][dn].used) { g_needs_close = 1; g_close_j = dels[g_c][dn].j; }
  }
  return 1;
}
void h_delframe(void)
{
  int c = ND_BOOL(), k, n = 0;
  common_init(); numjobs = NJOB; jo = jobs; d[0] = dels[0]; d[1] = dels[1]; g_c = c;
  concurrency[c] = ND_UINT(); V_ASSUME(concurrency[c] <= NSLOT);
  for (k = 0; k < NJOB; ++k) { jobs[k].numtodo = ND_INT(); jobs[k].flagdying = ND_BOOL(); jobs[k].id = ND_ULONG(); V_ASSUME(0 <= jobs[k].numtodo); }
  for (k = 0; k < NSLOT; ++k) { dels[c][k].used = k < (int)concurrency[c] ? ND_BOOL() : 0; dels[c][k].j = ND_INT(); V_ASSUME(0 <= dels[c][k].j && dels[c][k].j < NJOB); if (dels[c][k].used) ++n; }
  concurrencyused[c] = n;
  dline[c].s = dl; dline[c].a = REPORTMAX + 1; dline[c].len = ND_UINT(); V_ASSUME(dline[c].len <= REPORTMAX);   /* a fragment left by an earlier read */
  g_app = 0; g_needs_close = 0; g_zcat = 0; g_reports = 0; g_trunc = 0; g_r = 0; g_after = 0;
  del_dochan(c);
  if (g_r > 0) {
    V_ASSERT(g_app == g_r, "C18: supporting: every byte read is consumed");
    V_ASSERT(dline[c].len <= REPORTMAX, "C18: oversized reports are truncated");
    V_ASSERT(!g_needs_close, "C18: every complete report naming a used slot frees that slot");
    V_ASSERT(!g_after || dline[c].len == 0, "C18,C03,C04: after a complete report - accepted or not - the next one starts in an empty buffer");
    n = 0; for (k = 0; k < NSLOT; ++k) if (dels[c][k].used) ++n;
    V_ASSERT((int)concurrencyused[c] == n, "C04: the count of outstanding deliveries equals the number of slots in use, whatever bytes arrive on the report channel");
  }
  V_COVER(g_reports >= 3); V_COVER(g_trunc && g_reports >= 1); V_COVER(g_r == 2048);
}
#endif
