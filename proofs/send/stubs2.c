#include "verif.h"
#include "datetime.h"
#include "stralloc.h"
#include <sys/types.h>
#if defined(P_MESSDONE) || defined(P_CLEANUP)
void cleandied(void) {}
#endif
#ifdef P_MESSDONE
extern int g_inject_called, g_inject_ret, g_nunlink; extern unsigned long g_id; extern int k_file[9];
int injectbounce(unsigned long id)
{
  V_ASSERT(id == g_id && !g_nunlink, "C03: supporting: the bounce is injected for this message before info is removed");
  V_ASSERT(k_file[5] == 1 && k_file[6] == 1 && k_file[2] == 1 && k_file[1] == 2, "C03: the bounce is sent only when every recipient list is gone (all recipients decided)");
  g_inject_called = 1; g_inject_ret = ND_BOOL(); return g_inject_ret;
}
#endif
#ifdef P_PASS
extern int g_started, g_start_j, g_jobclosed, g_jobclosed_j, g_getinfo_ok; extern off_t g_start_mpos; extern datetime_sec g_birth;
int g_del_avail;
int del_avail(int c) { return ND_BOOL(); }
int getinfo(stralloc *sa, datetime_sec *dt, unsigned long id) { g_getinfo_ok = 0; if (ND_BOOL()) return 0; g_getinfo_ok = 1; g_birth = ND_LONG(); V_ASSUME(0 <= g_birth && g_birth < (1L << 40)); *dt = g_birth; return 1; }
datetime_sec nextretry(datetime_sec birth, int c) { return ND_LONG(); }
void del_start(int j, off_t mpos, char *recip) { V_ASSERT(!g_started, "C04: at most one delivery is started per record"); g_started = 1; g_start_j = j; g_start_mpos = mpos; }
void job_close(int j) { g_jobclosed = 1; g_jobclosed_j = j; }
#endif
#ifdef P_DELREPORT
extern int g_marked, g_mark_c, g_bounced, g_order_ok, g_closedjob, g_spawndied; extern unsigned long g_mark_id, g_bounce_id; extern off_t g_mark_pos; extern char *g_bounce_recip;
void markdone(int c, unsigned long id, off_t pos) { V_ASSERT(!g_marked, "C04: a recipient is marked once"); g_marked = 1; g_mark_c = c; g_mark_id = id; g_mark_pos = pos; }
void addbounce(unsigned long id, char *recip, char *report) { if (g_marked) g_order_ok = 0; g_bounced = 1; g_bounce_id = id; g_bounce_recip = recip; }
void job_close(int j) { V_ASSERT(g_closedjob == -1, "C04: supporting: one job_close per report"); g_closedjob = j; }
void spawndied(int c) { g_spawndied = 1; }
void del_status(void) {}
#endif
#ifdef P_DELSTART
extern int g_commwrites, g_cw_slot;
void comm_write(int c, int delnum, unsigned long id, char *sender, char *recip) { ++g_commwrites; g_cw_slot = delnum; }
void del_status(void) {}
#endif
#ifdef P_MAIN
extern int g_mutated, g_announced[2], g_conf[2], g_nread, g_jobinit, numjobs; extern unsigned int concurrency[2];
int getcontrols(void) { return ND_BOOL(); }
void fnmake_init(void) {} void comm_init(void) {} void del_init(void) { g_mutated = 1; } void pass_init(void) {} void todo_init(void) { g_mutated = 1; } void cleanup_init(void) {}
void pqstart(void) { g_mutated = 1; }
void job_init(void)
{
  int c, sum = 0;
  g_jobinit = 1;
  V_ASSERT(g_nread == 2, "C04: both spawners announced their limit before any table is sized");
  for (c = 0; c < 2; ++c) { int lim = g_conf[c] < g_announced[c] ? g_conf[c] : g_announced[c];
    V_ASSERT((int)concurrency[c] == lim, "C04: the concurrency of a channel is the smaller of the configured value and the limit announced by its spawner (0..255)"); sum += lim; }
  V_ASSERT(numjobs == sum, "C04: the job table has one entry per possible outstanding delivery");
  V_COVER(g_announced[0] >= 128 && g_conf[0] > g_announced[0]);
}
int del_canexit(void) { return 1; }
void pqfinish(void) {}
#endif
#ifdef P_INJECT
extern char *sbuf; extern unsigned g_slen; extern int g_getinfo;
int getinfo(stralloc *sa, datetime_sec *dt, unsigned long id) { if (ND_BOOL()) return 0; g_getinfo = 1; sa->s = sbuf; sa->len = g_slen; sa->a = g_slen; *dt = 0; return 1; }
#endif
#ifdef P_TODO
extern int g_verdict, g_pendingT, g_fail_seen;
void cleandied(void) {}
int rewrite(char *recip) { V_ASSERT(g_pendingT, "C10: supporting: rewrite is applied to recipient records"); g_verdict = ND_INT(); if (g_verdict != 1 && g_verdict != 2) { g_verdict = 0; g_fail_seen = 1; } return g_verdict; }
#endif
#ifdef P_DELFRAME
extern int g_needs_close, g_close_j, g_c;
void markdone(int c, unsigned long id, off_t pos) { V_ASSERT(g_needs_close && c == g_c, "C18: out-of-range, unused or incomplete reports mark no recipient as finished"); }
void addbounce(unsigned long id, char *recip, char *report) { V_ASSERT(g_needs_close, "C18: out-of-range, unused or incomplete reports record no failure"); }
void job_close(int j) { V_ASSERT(g_needs_close && j == g_close_j, "C18: only a complete report naming a used slot in range releases a delivery, and it releases that slot's job"); g_needs_close = 0; }
void spawndied(int c) {}
void del_status(void) {}
#endif
#ifdef P_ADDBOUNCE_U
extern int g_stage;
char *stripvdomprepend(char *recip) { return recip; }   /* proof send_stripvdom; here: no prefix */
#endif
