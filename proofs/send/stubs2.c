#include "verif.h"
#include "datetime.h"
#include "stralloc.h"
#include <sys/types.h>
#if defined(P_MESSDONE) || defined(P_CLEANUP)
void cleandied(void) {}
#endif
#ifdef P_MESSDONE
extern int g_inject_called, g_inject_ret, g_nunlink; extern unsigned long g_id; extern int k_file[9];
int injectbounce(unsigned long id)
{
  V_ASSERT(id == g_id && !g_nunlink, "C03: supporting: the bounce is injected for this message before info is removed");
  V_ASSERT(k_file[5] == 1 && k_file[6] == 1 && k_file[2] == 1 && k_file[1] == 2, "C03: the bounce is sent only when every recipient list is gone (all recipients decided)");
  g_inject_called = 1; g_inject_ret = ND_BOOL(); return g_inject_ret;
}
#endif
#ifdef P_PASS
extern int g_started, g_start_j, g_jobclosed, g_jobclosed_j, g_getinfo_ok; extern off_t g_start_mpos; extern datetime_sec g_birth;
int g_del_avail;
int del_avail(int c) { return ND_BOOL(); }
int getinfo(stralloc *sa, datetime_sec *dt, unsigned long id) { g_getinfo_ok = 0; if (ND_BOOL()) return 0; g_getinfo_ok = 1; g_birth = ND_LONG(); V_ASSUME(0 <= g_birth && g_birth < (1L << 40)); *dt = g_birth; return 1; }
datetime_sec nextretry(datetime_sec birth, int c) { return ND_LONG(); }
void del_start(int j, off_t mpos, char *recip) { V_ASSERT(!g_started, "C04: at most one delivery is started per record"); g_started = 1; g_start_j = j; g_start_mpos = mpos; }
void job_close(int j) { g_jobclosed = 1; g_jobclosed_j = j; }
#endif
