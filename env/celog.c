/* CE mode: scalars whose successive assignments in the counterexample trace are the choice log / input stream */
#include "verif.h"
long verif_nd;
long verif_inb;
