/* entry of the native replay binary: calls the proof harness */
void VERIF_ENTRY(void);
int main(void) { VERIF_ENTRY(); return 0; }
