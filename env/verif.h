/* verif.h - macro layer shared by every proof harness and environment stub.
 *
 * Three build modes of the same harness text:
 *   (default)      PROOF   goto-cc; nondeterminism straight from nondet_*()
 *   -DVERIF_CE     CE      goto-cc; every nondeterministic choice is also assigned to the scalar
 *                          verif_nd so that the sequence can be read off a counterexample trace
 *   -DVERIF_NATIVE REPLAY  cc; choices come from the recorded log, V_ASSERT is a runtime check
 *
 * Nothing in /repo ever includes this file.
 */
#ifndef VERIF_H
#define VERIF_H

#include <stddef.h>


#ifdef VERIF_NATIVE

#include <stdio.h>
#include <stdlib.h>
#include <string.h>
long verif_next(void);
void verif_fail(const char *msg, const char *file, int line);
void verif_assume_fail(const char *file, int line);
#define V_ASSERT(c, msg) do { if (!(c)) verif_fail(msg, __FILE__, __LINE__); } while (0)
#define V_ASSUME(c) do { if (!(c)) verif_assume_fail(__FILE__, __LINE__); } while (0)
#define V_COVER(c) ((void)0)
#define ND_T(t, f) ((t)verif_next())
#define V_HAVOC_BYTES(p, n) do { size_t v_i; for (v_i = 0; v_i < (size_t)(n); ++v_i) ((unsigned char *)(p))[v_i] = (unsigned char)verif_next(); } while (0)
/* contract keywords vanish natively */
#define __CPROVER_requires(x)
#define __CPROVER_ensures(x)
#define __CPROVER_assigns(...)
#define __CPROVER_frees(...)
#define __CPROVER_havoc_object(p) ((void)0)
#define __CPROVER_same_object(a, b) (1)
#define __CPROVER_POINTER_OFFSET(p) (0)
#define __CPROVER_havoc_slice(p, n) ((void)0)

#else /* goto-cc */

int nondet_int(void);
long nondet_long(void);
unsigned long nondet_ulong(void);
unsigned char nondet_uchar(void);
unsigned nondet_uint(void);
_Bool nondet_bool(void);

#define V_ASSERT(c, msg) __CPROVER_assert((c), msg)
#define V_ASSUME(c) __CPROVER_assume(c)
/* reachability guard: in the -DVERIF_COVER build every V_COVER(c) is an assertion that MUST FAIL
 * (= the point is reachable with c true under all the assumptions of the proof) */
#ifdef VERIF_COVER
#define V_COVER(c) __CPROVER_assert(!(c), "COVER: " #c)
#else
#define V_COVER(c) ((void)0)
#endif

#ifdef VERIF_CE
/* every choice is assigned to the scalar verif_nd; the sequence of these assignments is read off the trace
 * (an array log with a symbolic index costs millions of SAT variables) */
extern long verif_nd;
#define ND_T(t, f) ((t)(verif_nd = (long)f()))
#define V_HAVOC_BYTES(p, n) do { size_t v_i; for (v_i = 0; v_i < (size_t)(n); ++v_i) ((unsigned char *)(p))[v_i] = ND_UCHAR(); } while (0)
#else
#define ND_T(t, f) (f())
#define V_HAVOC_BYTES(p, n) __CPROVER_havoc_slice((p), (n))
#endif

#endif /* VERIF_NATIVE */

#define ND_INT() ND_T(int, nondet_int)
#define ND_UINT() ND_T(unsigned, nondet_uint)
#define ND_LONG() ND_T(long, nondet_long)
#define ND_ULONG() ND_T(unsigned long, nondet_ulong)
#define ND_UCHAR() ND_T(unsigned char, nondet_uchar)
#define ND_CHAR() ((char)ND_UCHAR())
#define ND_BOOL() (ND_UCHAR() & 1)

/* the primary input byte stream of a proof (request bytes, DATA bytes, ...) is recorded separately in
 * CE mode, so that an end-to-end replayer can feed exactly those bytes to the real program */
#if defined(VERIF_CE) && !defined(VERIF_NATIVE)
extern long verif_inb;
#define V_INPUT_BYTE(b) ((void)(verif_inb = (long)(unsigned char)(b)))
#define V_INPUT_MARK(code) ((void)(verif_inb = (long)(code)))
#else
#define V_INPUT_BYTE(b) ((void)0)
#define V_INPUT_MARK(code) ((void)0)
#endif

/* stubs of system calls havoc errno on success as well as on failure */
#define V_HAVOC_ERRNO() ((void)(errno = ND_INT()))

#endif
