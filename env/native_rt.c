/* native replay runtime: supplies the recorded nondeterministic choices in order */
#define VERIF_NATIVE 1
#include "verif.h"

static long *vals;
static size_t nvals, pos;
static int loaded;
int verif_exhausted;

static void load(void)
{
  const char *fn = getenv("VERIF_REPLAY_INPUT");
  FILE *f;
  long v;
  size_t cap = 0;
  loaded = 1;
  if (!fn) return;
  f = fopen(fn, "r");
  if (!f) { perror(fn); exit(3); }
  while (fscanf(f, "%ld", &v) == 1) {
    if (nvals == cap) { cap = cap ? cap * 2 : 256; vals = realloc(vals, cap * sizeof *vals); }
    vals[nvals++] = v;
  }
  fclose(f);
}

long verif_next(void)
{
  if (!loaded) load();
  if (pos < nvals) return vals[pos++];
  verif_exhausted = 1;
  return 0;
}

void verif_fail(const char *msg, const char *file, int line)
{
  fflush(stdout);
  fprintf(stderr, "REPLAY-FAIL: %s (%s:%d)%s\n", msg, file, line,
          verif_exhausted ? " [input log exhausted before this point]" : "");
  _Exit(1);
}

void verif_assume_fail(const char *file, int line)
{
  fflush(stdout);
  fprintf(stderr, "REPLAY-ASSUME-VIOLATED: %s:%d (this recorded trace leaves the proof's input domain)\n", file, line);
  _Exit(4);
}
