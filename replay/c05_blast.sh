#!/bin/sh
# end-to-end replayer for C05: links the real blast() of <srcroot>/qmail-smtpd.c (file up to `int main(`) with a driver
# that feeds the recorded DATA bytes on descriptor 0 and captures what is handed to the queue, then compares with a
# reference decoder written from the property text.   usage: c05_blast.sh <srcroot> <wd>   exit 1 = reproduced
SRC=$1; WD=$2
exec python3 - "$SRC" "$WD" <<'EOF'
import sys, os, re, subprocess
src, wd = sys.argv[1], sys.argv[2]
vals = [int(x) for x in open(os.path.join(wd, "input.txt")).read().split()]
data = bytes(v for v in vals if 0 <= v < 256)
TERM = b"\r\n.\r\n"
TRAIL = b"NEXT COMMAND\r\n"
def ref(stream):
    """-> ('stray', None, None) | ('ok', stored, rest) | ('incomplete', None, None)"""
    s = b"\r\n" + stream
    i = 0
    # scan for the first of: bare LF, terminator
    k = 2
    while k < len(s):
        if s[k:k+1] == b"\n" and s[k-1:k] != b"\r":
            return ("stray", None, None)
        if s[k-4:k+1] == TERM and k >= 4:
            body = s[2:k-2] if k - 2 >= 2 else b""
            # body = everything before the ". CR LF" line, including the CR LF that ends the previous line
            lines = s[2:k-2].split(b"\r\n")[:-1] if k - 2 > 2 else []
            out = b"".join((l[1:] if l.startswith(b".") else l) + b"\n" for l in lines)
            alt = b"".join((l if l.startswith(b".\r") else (l[1:] if l.startswith(b".") else l)) + b"\n" for l in lines)
            return ("ok", (out, alt), s[k+1:])
        k += 1
    return ("incomplete", None, None)
kind, stored, rest = ref(data)
if kind == "incomplete":
    data = data + TERM
    kind, stored, rest = ref(data)
    if kind == "incomplete":      # data ended inside "\r\n." etc.
        data = data + b"x" + TERM
        kind, stored, rest = ref(data)
full = data + (TRAIL if kind == "ok" and not rest else b"")
kind, stored, rest = ref(full)
text = open(os.path.join(src, "qmail-smtpd.c")).read()
i = text.find("\nint main(")
open(os.path.join(wd, "smtpd-nomain.c"), "w").write(text[:i + 1])
open(os.path.join(wd, "drv.c"), "w").write(r'''
#include <unistd.h>
#include "substdio.h"
#include "qmail.h"
extern void blast(); extern substdio ssin;
void qmail_put(struct qmail *qq, char *s, size_t len) { write(3, s, len); }
void qmail_fail(struct qmail *qq) { }
int main() { int hops; char c; blast(&hops); write(4, "R", 1);
  for (;;) { substdio_get(&ssin, &c, 1); write(4, &c, 1); } }
''')
cc = ["cc", "-w", "-I" + src]
srcs = [os.path.join(wd, "smtpd-nomain.c"), os.path.join(wd, "drv.c")] + [os.path.join(src, f) for f in
        ("substdi.c", "substdo.c", "substdio.c", "byte_copy.c", "byte_cr.c", "timeoutread.c", "timeoutwrite.c")]
exe = os.path.join(wd, "blast")
r = subprocess.run(cc + ["-o", exe] + srcs, capture_output=True, text=True)
if r.returncode != 0:
    und = sorted(set(re.findall(r"undefined reference to `([A-Za-z_0-9]+)'", r.stderr)))
    with open(os.path.join(wd, "undef.c"), "w") as f:
        f.write("#include <stdlib.h>\n")
        for u in und: f.write("void %s(void) { _Exit(99); }\n" % u)
    r = subprocess.run(cc + ["-o", exe] + srcs + [os.path.join(wd, "undef.c")], capture_output=True, text=True)
    if r.returncode != 0:
        print("cannot build blast driver:", r.stderr[-600:]); sys.exit(2)
f3, f4 = os.path.join(wd, "stored.out"), os.path.join(wd, "after.out")
p = subprocess.Popen(["sh", "-c", 'exec "$0" 3>"$1" 4>"$2"', exe, f3, f4], stdin=subprocess.PIPE, stdout=subprocess.PIPE, stderr=subprocess.PIPE)
reply, _ = p.communicate(full)
got = open(f3, "rb").read(); after = open(f4, "rb").read()
print("bytes after DATA: %r" % full)
print("stored: %r   reply: %r   read after return: %r" % (got, reply, after))
bad = []
if kind == "stray":
    if not reply.startswith(b"451") or after:
        bad.append("a bare LF was not refused with 451 (blast %s)" % ("returned" if after else "did not answer 451"))
else:
    if not after.startswith(b"R"):
        bad.append("blast did not return at CR LF . CR LF (reply %r)" % reply)
    else:
        if got not in stored:
            bad.append("stored %r, the transmitted lines decode to %r" % (got, stored[0]))
        if after[1:] != rest:
            bad.append("bytes after the terminator that remain to be read as the next command: %r, expected %r" % (after[1:], rest))
if bad:
    for b in bad: print("REPRODUCED on the real blast():", b)
    sys.exit(1)
print("not reproduced"); sys.exit(0)
EOF
