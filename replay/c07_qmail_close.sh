#!/bin/sh
# end-to-end replayer for C07 (qmail_close): links the real qmail.c of <srcroot> into a tiny client that submits one
# message through $QMAILQUEUE = a script that writes the recorded error text to descriptor 6 and exits with the
# recorded status.  Oracle (property text): the client may see success ("") only if the queue program exited 0.
# usage: c07_qmail_close.sh <srcroot> <wd>      exit 1 = reproduced, 0 = not reproduced, 2 = error
SRC=$1; WD=$2
exec python3 - "$SRC" "$WD" <<'EOF'
import sys, os, re, subprocess, stat
src, wd = sys.argv[1], sys.argv[2]
vals = [int(x) for x in open(os.path.join(wd, "input.txt")).read().split()]
text = bytes(v for v in vals if 0 <= v < 256)
ws = [v - 1000 for v in vals if v >= 1000]
wstat = ws[-1] if ws else 0
code, sig = wstat >> 8, wstat & 127
fake = os.path.join(wd, "fakeq")
with open(fake, "w") as f:
    f.write("#!/bin/sh\ncat >/dev/null; cat <&1 >/dev/null 2>&1\nprintf '%s' >&6\n" % "".join("\\%03o" % b for b in text))
    f.write("kill -%d $$\n" % sig if sig else "exit %d\n" % code)
os.chmod(fake, 0o755)
open(os.path.join(wd, "aq.c"), "w").write('char auto_qmail[] = "/";\n')
open(os.path.join(wd, "cl.c"), "w").write(r'''
#include <stdio.h>
#include "qmail.h"
struct qmail qq;
int main() { char *r; if (qmail_open(&qq) == -1) return 3;
  qmail_put(&qq, "Subject: x\n\nbody\n", 17); qmail_from(&qq, "a@b"); qmail_to(&qq, "c@d");
  r = qmail_close(&qq); printf("%d\n", (unsigned char) r[0]); return 0; }
''')
files = ["qmail.c", "substdio.c", "substdi.c", "substdo.c", "byte_copy.c", "byte_cr.c", "wait_pid.c", "fd_move.c", "fd_copy.c", "env.c", "envread.c", "str_start.c", "str_chr.c", "str_rchr.c"]
exe = os.path.join(wd, "cl")
r = subprocess.run(["cc", "-w", "-I" + src, "-o", exe, os.path.join(wd, "cl.c"), os.path.join(wd, "aq.c")] +
                   [os.path.join(src, f) for f in files if os.path.exists(os.path.join(src, f))], capture_output=True, text=True)
if r.returncode != 0:
    print("cannot build client:", r.stderr[-600:]); sys.exit(2)
p = subprocess.run([exe], env=dict(os.environ, QMAILQUEUE=fake), capture_output=True, text=True)
first = int(p.stdout.strip() or -1)
print("queue program: text on fd 6 = %r, exit status = %d (signal %d); qmail_close() returned a string starting with byte %d" % (text, code, sig, first))
if first == 0 and (code != 0 or sig != 0):
    print("REPRODUCED on the real qmail.c: the caller is told the message was queued although the queue program failed"); sys.exit(1)
if first not in (0, ord("D"), ord("Z")):
    print("REPRODUCED on the real qmail.c: failure text starts with neither D nor Z"); sys.exit(1)
print("not reproduced"); sys.exit(0)
EOF
