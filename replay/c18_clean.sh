#!/bin/sh
# end-to-end replayer for C18 (qmail-clean): builds the real qmail-clean from <srcroot> with auto_qmail pointing at a
# scratch queue, feeds it the request bytes recorded in <wd>/input.txt and compares with an oracle written from the
# property text.   usage: c18_clean.sh <srcroot> <wd>     exit 1 = violation reproduced, 0 = not reproduced, 2 = error
SRC=$1; WD=$2
exec python3 - "$SRC" "$WD" <<'EOF'
import sys, os, re, subprocess, glob, shutil
src, wd = sys.argv[1], sys.argv[2]
vals = [int(x) for x in open(os.path.join(wd, "input.txt")).read().split()]
stream = bytes(v & 255 for v in vals if 0 <= v < 256)
q = os.path.join(wd, "q")
shutil.rmtree(q, ignore_errors=True)
split = 23
try:
    m = re.search(r"=\s*(\d+)", open(os.path.join(src, "auto_split.c")).read())
    split = int(m.group(1))
except Exception:
    pass
for d in ["intd", "todo", "pid", "info", "local", "remote", "bounce"] + ["mess/%d" % i for i in range(split)]:
    os.makedirs(os.path.join(q, "queue", d))
with open(os.path.join(wd, "aq.c"), "w") as f:
    f.write('char auto_qmail[] = "%s";\n' % q)
files = ["qmail-clean.c", "fmtqfn.c", "getln.c", "getln2.c", "sig_pipe.c", "sig_catch.c", "substdi.c", "substdo.c",
         "substdio.c", "subfdouts.c", "subfdins.c", "scan_ulong.c", "auto_split.c"]
files += [os.path.basename(x) for pat in ("stralloc_*.c", "str_*.c", "byte_*.c", "fmt_*.c") for x in glob.glob(os.path.join(src, pat))]
exe = os.path.join(wd, "qmail-clean")
r = subprocess.run(["cc", "-w", "-I" + src, "-o", exe] + [os.path.join(src, f) for f in files] + [os.path.join(wd, "aq.c")],
                   capture_output=True, text=True)
if r.returncode != 0:
    print("cannot build qmail-clean:", r.stderr[-500:]); sys.exit(2)
reqs = [x for x in stream.split(b"\0")]
complete = reqs[:-1]            # every NUL-terminated request
# populate: files for every number that appears after the 5-byte keyword position, plus sentinels
nums = set([7, 12])
for rq in complete:
    m = re.match(rb"^.{5}(\d+)", rq, re.S)
    if m: nums.add(int(m.group(1)) % (1 << 64))
def paths(n):
    return ["intd/%d" % n, "todo/%d" % n, "mess/%d/%d" % (n % split, n), "info/%d/%d" % (n % split, n)] if False else \
           ["intd/%d" % n, "todo/%d" % n, "mess/%d/%d" % (n % split, n)]
allfiles = set()
for n in nums:
    for p in paths(n):
        open(os.path.join(q, "queue", p), "w").close(); allfiles.add(p)
expected_gone = set()
wellformed = 0
for rq in complete:
    m = re.match(rb"^(foop|todo)/([0-9]+)$", rq)
    if m:
        wellformed += 1
        n = int(m.group(2)) % (1 << 64)
        expected_gone.add("intd/%d" % n)
        expected_gone.add(("mess/%d/%d" % (n % split, n)) if m.group(1) == b"foop" else "todo/%d" % n)
p = subprocess.run([exe], input=stream, capture_output=True)
out = p.stdout
left = set(x for x in allfiles if os.path.exists(os.path.join(q, "queue", x)))
gone = allfiles - left
bad = []
if len(out) != len(complete):
    bad.append("%d requests were answered with %d status bytes %r" % (len(complete), len(out), out))
if gone - expected_gone:
    bad.append("files removed that no well-formed request names: %s" % sorted(gone - expected_gone))
if out.count(b"+") > wellformed:
    bad.append("%d '+' answers for %d well-formed requests" % (out.count(b"+"), wellformed))
print("request stream: %r" % stream)
print("status bytes:   %r" % out)
if bad:
    for b in bad: print("REPRODUCED on the real qmail-clean:", b)
    sys.exit(1)
print("not reproduced")
sys.exit(0)
EOF
