#!/bin/sh
# end-to-end replayer for C06: links the real blast() of <srcroot>/qmail-remote.c (as tests/Makefile does: the file up
# to `int main(`) with a driver that feeds the recorded message bytes, and checks the bytes it sends with an oracle
# written from the property text.   usage: c06_blast.sh <srcroot> <wd>    exit 1 = reproduced, 0 = not, 2 = error
SRC=$1; WD=$2
exec python3 - "$SRC" "$WD" <<'EOF'
import sys, os, re, subprocess
src, wd = sys.argv[1], sys.argv[2]
vals = [int(x) for x in open(os.path.join(wd, "input.txt")).read().split()]
msg = bytes(v for v in vals if 0 <= v < 256)
if 256 not in vals and not msg.endswith(b"\n"):
    msg += b"\n"      # the recorded trace stops mid-message: complete the last line so that the message is well-formed
text = open(os.path.join(src, "qmail-remote.c")).read()
i = text.find("\nint main(")
if i < 0:
    print("cannot find main in qmail-remote.c"); sys.exit(2)
open(os.path.join(wd, "qr-nomain.c"), "w").write(text[:i + 1])
open(os.path.join(wd, "drv.c"), "w").write(r'''
#include <unistd.h>
#include <stdio.h>
#include "substdio.h"
extern void blast();
extern char inbuf[1024]; extern substdio ssin;
extern char smtptobuf[1024]; extern substdio smtpto;
static ssize_t rd(int fd, char *b, size_t n) { return read(0, b, 1); }   /* one byte per read: any chunking */
static ssize_t wr(int fd, const char *b, size_t n) { return write(3, b, n); }  /* fd 3: what goes to the SMTP peer */
int main() {
  substdio ti = SUBSTDIO_FDBUF(rd,-1,inbuf,sizeof(inbuf)); substdio to = SUBSTDIO_FDBUF(wr,-1,smtptobuf,sizeof(smtptobuf));
  ssin = ti; smtpto = to; blast(); return 0; }
''')
cc = ["cc", "-w", "-I" + src]
srcs = [os.path.join(wd, "qr-nomain.c"), os.path.join(wd, "drv.c")] + [os.path.join(src, f) for f in
        ("substdi.c", "substdo.c", "substdio.c", "byte_copy.c", "byte_cr.c", "subfdouts.c", "error_str.c")]
exe = os.path.join(wd, "blast")
r = subprocess.run(cc + ["-o", exe] + srcs, capture_output=True, text=True)
if r.returncode != 0:
    und = sorted(set(re.findall(r"undefined reference to `([A-Za-z_0-9]+)'", r.stderr)))
    with open(os.path.join(wd, "undef.c"), "w") as f:
        f.write("#include <stdlib.h>\n")
        for u in und: f.write("void %s(void) { _Exit(99); }\n" % u)
    r = subprocess.run(cc + ["-o", exe] + srcs + [os.path.join(wd, "undef.c")], capture_output=True, text=True)
    if r.returncode != 0:
        print("cannot build blast driver:", r.stderr[-600:]); sys.exit(2)
peer = os.path.join(wd, "peer.out")
p = subprocess.Popen(["sh", "-c", 'exec "$0" 3>"$1"', exe, peer], stdin=subprocess.PIPE, stdout=subprocess.PIPE, stderr=subprocess.PIPE)
report, _ = p.communicate(msg)
out = open(peer, "rb").read()
print("message bytes: %r" % msg)
print("bytes sent:    %r (exit %d, report %r)" % (out, p.returncode, report))
if p.returncode != 0 or report:
    # blast refused the message (partial last line / read error): nothing to decode, and it must not have sent end-of-data
    payload = b"\r\n" + out
    if b"\r\n.\r\n" in payload:
        print("REPRODUCED on the real blast(): end-of-data was sent although the message was refused"); sys.exit(1)
    print("not reproduced (message refused)"); sys.exit(0)
bad = []
payload = b"\r\n" + out          # DATA payload starts at a line start
if payload.count(b"\r\n.\r\n") != 1 or not payload.endswith(b"\r\n.\r\n"):
    bad.append("CR LF . CR LF does not occur exactly once at the very end")
if re.search(rb"(?<!\r)\n", out):
    bad.append("bare LF sent")
lines = out.split(b"\r\n")
for ln in lines[:-2]:
    if ln.startswith(b".") and not ln.startswith(b".."):
        bad.append("line %r begins with a dot and is not dot-stuffed" % ln)
if b"\r" not in msg:
    body = payload[2:payload.find(b"\r\n.\r\n") + 2] if payload.find(b"\r\n.\r\n") >= 0 else out
    dec = b"".join((l[1:] if l.startswith(b".") else l) + b"\n" for l in body.split(b"\r\n")[:-1])
    if dec != msg:
        bad.append("a conforming receiver decodes %r, not the queued message" % dec)
if bad:
    for b in bad: print("REPRODUCED on the real blast():", b)
    sys.exit(1)
print("not reproduced"); sys.exit(0)
EOF
