# which properties are claimed (with the level text that goes into MANIFEST.json) and which are not (with the reason).
# Edited by hand together with DESIGN.md; bin/mkmanifest turns it into MANIFEST.json.

PENDING = "contracts designed in DESIGN.md section 5 but not yet built and discharged in this tree; not claimed until they are"

CLAIMS = {
    "C18": dict(
        text="Proof (CBMC function + loop contracts on the unmodified qmail-clean.c): for every byte stream of requests, "
             "every request gets exactly one status byte, unlink is called only on the name just formatted for the "
             "number a well-formed request names, in the order intd then mess/todo, and a rejected request changes "
             "nothing. Unbounded in the number and content of requests (request length <= 255 bytes). "
             "spawn.c docmd() (loop contract, ghost index): open() only on the command's own name, non-empty, <= 100 bytes, "
             "every byte a digit, a non-leading / or NUL; spawn() only for a regular file owned by the queue user; in-range "
             "free delivery number; exactly one report (starting with the delivery number) or one started delivery per "
             "command. qmail-send del_dochan(): every report byte pattern - out-of-range, unused or garbled reports change "
             "no recipient's state (slot tables bounded to 3-4 entries).",
        note="Environment stubs (getln as request oracle, unlink, fmtqfn, scan_ulong through its contract) are trusted; "
             "message numbers are abstract values (scan_ulong wrap-around >= 2^64 is not distinguished).",
        design_ref="DESIGN.md section 5 C18"),
    "C06": dict(
        text="Proof (CBMC loop contracts on the unmodified qmail-remote.c blast()): for every message byte stream of any "
             "length, read errors and EOF at any point, the bytes handed to the SMTP connection contain no bare LF, every "
             "line beginning with a dot is dot-stuffed, the line consisting of a single dot occurs exactly once, at the "
             "very end, after the whole message was read; for messages without CR a reference receiver decodes the "
             "output byte for byte to the queued message; a message whose last line is unterminated is refused.",
        note="substdio_get/substdio_put are replaced by the monitors (one byte per read, so every chunking is covered); "
             "safewrite is assumed not to return on failure (it exits through dropped()).",
        design_ref="DESIGN.md section 5 C06"),
    "C05": dict(
        text="Proof (CBMC loop contract on the unmodified qmail-smtpd.c blast()/put()): for every byte stream after DATA, of "
             "any length and however it is split into network reads, the bytes handed to the queue are exactly those a "
             "reference decoder written from the property produces (CR LF -> LF, one leading dot removed, bare CR kept), "
             "blast returns exactly at CR LF . CR LF and reads nothing beyond it, and a LF not preceded by CR leads only "
             "to the 451 refusal with nothing further read or stored.",
        note="substdio_get on the connection is a stub returning one arbitrary byte (saferead exits on EOF/timeout); "
             "qmail_put is a recording stub. DATA streams < 2 GiB. The round-trip with this package's own client is the "
             "composition with the C06 monitor (reference level, hand argument).",
        design_ref="DESIGN.md section 5 C05"),
    "C07": dict(
        text="Proof (CBMC, complete constant unwinding) of the hand-over to qmail-queue in qmail.c: for every wait status, every "
             "error text and every write/flush failure, qmail_close() reports success iff the queue program was reaped, did "
             "not crash, exited 0 and nothing failed on the writer's side; the envelope terminator is never written after "
             "a failure; permanent (D) exactly for the documented permanent exit codes, temporary (Z) otherwise. "
             "qmail-smtpd smtp_data: 250 iff queued, 554/552/451 classes; put(): failed exactly at byte databytes+1 and every "
             "stored byte passes the counter (blast invariant); received.c: safeput() writes only safe characters for peer strings of "
             "any length (loop contract) and received() passes every peer-supplied string through it. qmail-qmqpd main/getbuf and qmail-qmtpd main (11 loop contracts, any byte stream, at most 8 "
             "recipients before the model allocator gives up): K iff qmail_close reported the message queued, an "
             "unacceptable address or an over-size body fails the submission before it is closed, buffers never overrun.",
        note="qmail-queue's own behaviour is C01; substdio, close and wait_pid are environment stubs.",
        design_ref="DESIGN.md section 5 C07"),
    "C15": dict(
        text="Proof (CBMC, complete unwinding of the constant 16-step loop, full domain 0 <= age < 2^32): squareroot() is the "
             "integer square root; nextretry() (squareroot through its contract) is strictly in the future and >= birth + "
             "skip^2 (exact formula birth + (floor(sqrt(age))+skip)^2 in the thorough tier). Bounded stand-in (labelled, not "
             "counted as proved): prioq_insert/prioq_delmin re-establish heap order, the root is a minimum, and the "
             "multiset of elements is preserved, for every heap of <= 16 (order) / <= 8 (multiset) elements.",
        note="Clock and birth time in [0, 2^40) s, ages < 2^32 s. Heap order for unbounded sizes needs a quantified invariant "
             "that none of the installed solvers discharges (DESIGN 2.9); daemon histories (restart, ALRM, expiry) are covered "
             "only through the per-function proofs listed in evidence.",
        design_ref="DESIGN.md section 5 C15"),
    "C09": dict(
        text="Proof (CBMC loop contract on the unmodified qmail-remote.c smtp()/quit()): for every sequence of reply codes and "
             "any number of recipients, K is reported only after greeting 220, HELO 250, MAIL < 400, some RCPT < 400, DATA "
             "< 400 and a final reply < 400; 5xx at MAIL/DATA/final dot gives D, 4xx or a wrong greeting/HELO gives Z; one "
             "r/s/h record per recipient in argument order; the critical (possible duplicate) flag is raised from before the "
             "final dot until the reply was read (with remote_blast). qmail-rspawn report(): every wait status (complete) and, "
             "as a bounded stand-in, every qmail-remote output of <= 8 bytes: success is never relayed unless the first "
             "verdict record says K and the recipient record is neither s nor h. outsmtptext()/outsafe() (loop contracts, any length): "
             "no NUL of the server's reply text and only printable ASCII of a host name reach the NUL-separated report stream, so "
             "reply text cannot forge a verdict record.",
        note="smtpcode() is an arbitrary-code stub in the smtp() proof and is itself proved (remote_smtpcode: code = leading "
             "three bytes, multi-line replies read exactly to the end of their last line, text bounded; reply lines with a LF "
             "among their first three bytes are outside that proof's domain); connect/DNS phase of main and timeouts "
             "(dropped) are not covered beyond the flag.",
        design_ref="DESIGN.md section 5 C09"),
    "C08": dict(
        text="Proof (CBMC): each SMTP verb of the unmodified qmail-smtpd.c (HELO/EHLO/RSET, MAIL, RCPT, DATA) is verified as an "
             "operation on an abstract transaction view from an arbitrary state, so every command sequence is covered by "
             "induction: MAIL discards earlier recipients and sets sender and bad-sender verdict from its own argument; a "
             "recipient record (T addr NUL) is added iff answered 250, only after MAIL, never for a bad sender, with the "
             "RELAYCLIENT suffix or an rcpthosts yes; DATA submits only with MAIL and >= 1 recipient, with exactly that sender "
             "and those records, and discards the transaction. rcpthosts() (loop contracts, unbounded): candidates are the "
             "whole domain and its dot-suffixes in order, none skipped, lower-cased first, first hit decides, errors defer. "
             "commands() (3 loop contracts, any byte stream): every line, CR LF or bare LF, is NUL-terminated and dispatched exactly "
             "once to the first matching verb or the default, its argument inside the line. control_readfile() (loop contracts): 1 "
             "iff the file exists and was read to its end - however empty -, 0 iff it is missing, -1 on any failure; "
             "rcpthosts_init(): the relay gate is open only for a missing control/rcpthosts; cdb_seek() (morercpthosts.cdb): see "
             "C11. Bounded stand-in: addrparse() localiphost substitution and length limit for arguments <= 14 bytes.",
        note="stralloc operations are recording stubs (their contracts are proved separately); constmap/cdb lookups are oracles "
             "(list contents are configuration); the dispatch table in the commands() proof has three verbs plus the default.",
        design_ref="DESIGN.md section 5 C08"),
    "C01": dict(
        text="Proof (CBMC loop contracts on the unmodified qmail-queue.c main() and everything it calls in that file, every "
             "environment call allowed to fail at every call site): todo/<id> is linked only when the Received line plus the "
             "complete message and the complete envelope (grammar F addr NUL (T addr NUL)* NUL, each byte copied in order) "
             "have been written, flushed and fsynced; success is returned only after that link; malformed envelope -> 91, "
             "address >= 1003 bytes -> 11, read error/EOF -> 54, write/flush/fsync failure -> 53, each with cleanup of intd "
             "then mess; the 24 h alarm is armed before the first file is created and its handler touches nothing. Because "
             "the ordering obligations are checked at every system call, they hold at every crash point between calls.",
        note="File-system semantics are an assumption (synchronous directory operations, honest fsync, unique inode numbers); "
             "byte-exact content of the message copy rests on the substdio contracts (count level here); loss of unsynced "
             "data is represented as the requirement 'synced before publication', not simulated.",
        design_ref="DESIGN.md section 5 C01"),
    "C12": dict(
        text="Proof (CBMC) on the unmodified qmail-local.c: maildir_child() (complete by constant unwinding, every call may "
             "fail): the message is linked into new/ only after both header lines and the whole message were written and the "
             "file was flushed, fsynced and closed, under the tmp/ name just created; exit 0 iff linked; tmp removed on every "
             "exit; maildir(): success only for child status 0. mailfile() (loop contract, any number and length of lines): "
             "lock requested before the previous length is recorded and before any write; From_, Return-Path, Delivered-To, "
             "every line once and unchanged, > prefix iff gfrom, missing final newline added, one blank separator; on any "
             "read/write/flush/fsync failure truncation to exactly the previous length (when locked) and exit 111; success "
             "only after fsync. gfrom(): unbounded lemma for lines not starting with >, bounded lemma (<= 24 bytes) "
             "gfrom('>'+l) = gfrom(l); their combination (l matches >*From_) is a hand induction.",
        note="Concurrent deliveries are not modelled: lock_ex is assumed to give mutual exclusion. Content of the copied "
             "message rests on the substdio/getln contracts. The sender-sanitising loop in main is not covered.",
        design_ref="DESIGN.md section 5 C12"),
    "C11": dict(
        text="Proof (CBMC) on the unmodified qmail-lspawn.c: child branch of spawn(): execv is reached only after "
             "setgroups(1,&gid), setgid(gid), setuid(uid) succeeded in that order with the uid/gid fields of the assignment "
             "record, after the real-uid root test, with user/home/dash/ext/local/host/sender/default passed in the documented "
             "positions; a short record is refused. nughde_get() table part (loop contract, local parts of any length < 1023): "
             "exact key first, then successively shorter prefixes only at wildcard terminators (or the catch-all), none "
             "skipped, first hit wins, unmatched original-case tail appended, any cdb error exits QLX_CDB (deferral) and never "
             "falls through to the password file. report(): K only for exit 0, every lookup/database code defers. cdb "
             "primitives: cdb_unpack(cdbmake_pack(x)) = x for all x; cdb_hash = fold of cdbmake_hashadd (keys <= 12 bytes, bounded). "
             "cdb_seek()/match() (3 loop contracts, any database content, every fault): 'not found' only for an empty table, an "
             "empty slot or after every slot was probed - a slot with the same hash but another key does not end the search; "
             "consecutive wrapping probe walk; every read/seek failure is an error (deferral), never 'not found'. "
             "qmail-getpw userext() (loop contract, local part of any length): candidate users = the local part and its prefixes "
             "before a dash, longest first, none skipped, each < 32 bytes and lower-cased; a user is chosen only if it exists, is not "
             "root and owns its existing home directory; lookup trouble defers.",
        note="What the table contains is configuration (cdb_seek is an oracle in nughde_get; its own proof assumes tables of < 2^29 "
             "slots and takes the home-slot formula from the code). NOT covered: the whole-file "
             "agreement of the database compiler with the reader (cdbmake_split/throw ordering, 'first duplicate wins' - the "
             "bounded attempt did not terminate, see DESIGN), qmail-pw2u, and the output formatting of qmail-getpw main().",
        design_ref="DESIGN.md section 5 C11"),
    "C19": dict(
        text="Proof (CBMC) on the unmodified qmail-pop3d.c, each verb from an arbitrary session state (any number of "
             "messages, any marks): msgno maps n to the n-th start-up entry and refuses zero, out-of-range, non-numeric and "
             "deleted numbers without effect; DELE marks exactly that message; RSET clears every mark (loop contract, ghost "
             "index); RETR/TOP open exactly that message's file, never a deleted one; no verb other than QUIT unlinks or "
             "renames; blast() (loop contract, any number and length of lines): every stored line once, unchanged, CR LF "
             "appended, dot-stuffed, TOP limited to header + n body lines, blank line and lone dot at the end; main refuses "
             "to run as root first. qmail-popup: a refused USER has no effect, PASS only after an accepted USER, APOP split at the "
             "first space, credentials handed to the checker as user NUL password NUL <timestamp> NUL in that order and "
             "verbatim, and the pre-authentication table holds only USER, PASS, APOP, QUIT, NOOP. Bounded stand-in: QUIT "
             "removes exactly the marked messages for <= 6 messages.",
        note="The correspondence of the start-up list with the directory (maildir_scan) is not covered; commands() (line framing and "
             "dispatch, shared with qmail-smtpd) is proved for a three-verb table (proof commands); RETR/TOP hand blast a freshly "
             "initialised read buffer (pop3_top); getln/scan_ulong are used through their contracts.",
        design_ref="DESIGN.md section 5 C19"),
    "C02": dict(
        text="NARROW claim - the sequential, per-process core only. Proof (CBMC) that every queue mutation of qmail-queue "
             "main (S1->S2->S3->S4 and the cleanup paths, message number = inode), qmail-clean main (intd before mess/todo, "
             "stop at the first failing unlink), and qmail-send cleanup_do (foop only for mess older than 36 h with info and "
             "todo both stat'ed ENOENT), messdone (info unlinked only with local, remote, todo known absent and the bounce "
             "queued; foop only after that), job_close and the start-up of main (queue lock before anything else; a second "
             "instance exits 111 without touching the queue) keeps the message it handles inside S1..S5 and in the documented "
             "order - from an arbitrary state, at every system call, with every call allowed to fail.",
        note="NOT decided: the property's quantifier over interleavings of several processes and crashes. That the "
             "per-process guarantees compose (fresh inode numbers, single locked daemon, 24 h vs 36 h separation) is a hand "
             "argument in DESIGN.md, not a proof; inode uniqueness is a file-system assumption.",
        design_ref="DESIGN.md section 5 C02, section 10"),
    "C03": dict(
        text="NARROW claim - the safety half, per function. Proof (CBMC, each function from an arbitrary table state): a "
             "recipient is marked finished exactly for a K or D report (Z only on the message's last attempt), never for a "
             "deferral, a garbled, out-of-range or unused-slot report or a lost spawner; the failure is recorded in the "
             "bounce before the mark; a recipient list is unlinked only at end-of-list with nothing pending; info is removed "
             "only when both lists and todo are known absent and the bounce was queued; every failure path re-inserts the "
             "message into a retry queue (pqadd, job_close, messdone, pass_dochan), never forgets it. todo_do (loop contract, any "
             "number and kind of records, every call may fail): every recipient record read is written to exactly the channel "
             "its classification says before the next is read; the todo entry is removed only after the envelope was read to "
             "EOF without error and info and every recipient list were flushed, fsynced and closed; the message is scheduled "
             "only after that removal, on exactly the channels that got a list (or for completion).",
        note="NOT decided: 'stays in the queue until every recipient is delivered or bounced' as a statement about whole "
             "histories with restarts, and any liveness. Slot tables are bounded to 3-4 slots / 4-8 jobs (labelled bounded); "
             "The byte content of the rewritten records is rewrite()'s contract (C10).",
        design_ref="DESIGN.md section 5 C03, section 10"),
    "C04": dict(
        text="NARROW claim - per function. Proof (CBMC): pass_dochan starts a delivery only for a record still marked T, hands "
             "it the offset of exactly that record, and advances the offset over every record read; del_start takes one free "
             "slot below the concurrency limit, counts it and sends exactly one command; del_dochan frees exactly the reported "
             "slot; markdone writes exactly one byte D at that offset of the right list; at start-up concurrency = "
             "min(configured, byte announced by the spawner as 0..255) and the job table matches.",
        note="NOT decided: exactly-once across histories and crash/restart (rests on the durability of the one-byte mark). "
             "Slot/job tables bounded to 4/8 entries (labelled bounded).",
        design_ref="DESIGN.md section 5 C04, section 10"),
    "C16": dict(
        text="NARROW claim - the premises of the no-lost-wake-up argument and the sleep computation, per function. Proof "
             "(CBMC): qmail-queue pulls the trigger only after link(intd,todo) succeeded; todo_do re-arms the trigger before "
             "it opens the todo directory, and a pulled trigger or the deadline starts a scan at once; pass_selprep, "
             "todo_selprep and cleanup_selprep only lower the wake-up time, to at most the earliest key of every retry queue, "
             "the next todo scan and the next cleanup, and to 0 while a scan is in progress.",
        note="NOT decided: that publish-then-signal against re-arm-then-scan excludes a lost wake-up for every interleaving "
             "(a schedule quantifier: hand argument only); the tv computation inside main's loop is not isolated.",
        design_ref="DESIGN.md section 5 C16, section 10"),
    "C14": dict(
        text="Proof (CBMC loop contracts) on the unmodified qmail-send.c: injectbounce() (every stat/open/read/queue failure; "
             "envelope sender of any length, record and message copies of any length): after removing a trailing -@[] the "
             "sender #@[] means discard (nothing queued, record removed), the empty sender means one double bounce F=#@[] "
             "T=doublebounceto, anything else one bounce F=<> T=sender; the record is unlinked only after qmail_close reported "
             "the notice queued (qmail_close's own proof is part of this check); read errors fail the submission. "
             "addbounce() (4 loop contracts, recipient and report of any length and content): '<rcpt>:' line without line "
             "break, no blank line inside an entry whatever the report contains (report text cannot forge a recipient "
             "paragraph), exactly one closing blank line, every byte written exactly once despite short writes and failures. "
             "del_dochan: every permanent failure (and only those) is recorded with addbounce before the recipient is marked. "
             "stripvdomprepend() (loop contract, recipient and prefix of any length): virtualdomains candidates = domain, each "
             ".suffix, catch-all, in order, none skipped, first match decides; prefix- removed exactly when the recipient carries it.",
        note="Bounce loops being impossible follows from the three sender cases by a two-line hand corollary; the text of the "
             "notice is not covered; the stralloc stubs of the addbounce proof append without copying contents (any bytes).",
        design_ref="DESIGN.md section 5 C14"),
    "C10": dict(
        text="Proof (CBMC loop contracts on the unmodified qmail-send.c rewrite(), addresses <= 52 bytes (bounded), any number of "
             "% rounds and domain labels): default host appended iff no @; percent hack decided on the domain before "
             "anything else; locals consulted exactly once, on the domain after the last @, and a hit wins (local, "
             "unprefixed); otherwise virtualdomains candidates are exactly the full address, the domain, its dot-suffixes and "
             "the catch-all, most specific first, none skipped (ghost index), first hit decides, empty tag = remote; the "
             "record is T [tag -] address NUL; no recipient is dropped. regetcontrols(): after a HUP both tables are rebuilt "
             "from the whole newly read files, on a read failure the old ones stay. constmap hash(): case-insensitive for "
             "every key <= 6 bytes (bounded).",
        note="What the control files list is configuration (constmap is a recording oracle in rewrite); the percent-hack "
             "round itself (cut at @, last % becomes @) is checked through the loop invariant only at the level 'the probe "
             "follows an @'; todo_do: recipients keep their order and none is dropped, duplicated or merged (each record "
             "goes to exactly one channel list before the next is read); senderadd (VERP expansion) is proved for sender and "
             "recipient of any length (send_senderadd_u); control_readfile (the reader of locals/virtualdomains) is proved with loop contracts.",
        design_ref="DESIGN.md section 5 C10"),
    "C13": dict(
        text="Proof (CBMC) on the unmodified qmail-local.c: main() (7 loop contracts, control files, addresses and extensions of "
             "any length; every function of the file it calls is a recording stub): the Delivered-To and Return-Path lines "
             "contain no line break before their end and blanks/tabs/newlines of the sender are replaced in the From_ line "
             "(hostile envelope addresses cannot inject header lines); the extension is lower-cased and every dot mapped to a "
             "colon before the control-file search; checkhome and the Delivered-To loop check run before any instruction; "
             "instruction lines are executed by their type (./ mailbox, | program, forward), in line order, each at most once; "
             "file and program lines are refused when the .qmail is executable or +list was seen; nothing is executed after a "
             "program exited 99; every forward line that was reached is forwarded, once, after everything else; success only "
             "at the end. qmesearch() (loop contract, ghost index; extensions of any length): exact name first, then -default at "
             "every dash from the longest prefix down to the bare default, all built from the sanitised extension, none "
             "skipped, first existing wins, DEFAULT set; qmeexists(): only regular files not writable by others, "
             "temporary/permission errors defer, x bit = forward-only; checkhome(): writable or sticky home defers; "
             "mailprogram(): 0 continue, 99 stop-with-success, {100,64,65,70,76,77,78,112} permanent, crash and everything "
             "else temporary.",
        note="bouncexf (the Delivered-To loop check: every header line as long as the Delivered-To line is compared, an identical one "
             "bounces, nothing after the header is examined) and mailforward (Delivered-To line first, every line once, NEWSENDER, every "
             "address once and in order, success only if qmail-queue accepted) have their own loop-contract proofs. NOT covered: which byte ends a "
             "maildir line; lower-casing itself is case_lowerb's contract. The sizing of the forward-address table in main is a "
             "bounded stand-in (local_main_recips, .qmail <= 6 bytes); the unbounded main proof models that table generously.",
        design_ref="DESIGN.md section 5 C13"),
    "C17": dict(
        category="other",
        technique="bounded CBMC runs (complete unwinding for inputs up to a stated length) of the real quote.c against a reference unquoter; contract-level stralloc model",
        text="PARTIAL claim - the quoting half, as bounded stand-ins (labelled bounded, not counted as proved): for every local "
             "part of <= 6 bytes over all bytes but NUL and LF, quote() produces a form that a reference RFC 821 unquoter "
             "(the rule qmail-smtpd's addrparse implements) decodes to the identical bytes, with every parser-special byte "
             "inside balanced quotes and unquoted forms being dot-atoms; quote2() quotes exactly the part before the LAST @ "
             "and appends the domain unchanged (addresses <= 9 bytes); token822_unquote() (<= 4 tokens of <= 3 bytes): output = "
             "concatenation of the token texts, literals in brackets, comments dropped, inside the reserved size.",
        note="NOT addressed: the second half of the property - RFC 822 header address lists becoming the envelope in "
             "qmail-inject (token822_parse/token822_addrlist, headerbody, hfield): no contract within reach expresses 'the "
             "listed mailboxes' without re-implementing RFC 822, and the callback-driven parser is outside what the tool "
             "handled in the time available. A change there is NOT detected by this check.",
        design_ref="DESIGN.md section 5 C17"),
    "C20": dict(
        text="SCOPED claim. CBMC's built-in checks (array bounds, pointer validity, pointer overflow, signed overflow, division "
             "by zero, undefined shifts) are enabled in EVERY proof of every property, so every function listed under "
             "functions_under_contract in any evidence file is memory-safe and free of signed overflow under its stated "
             "precondition for all inputs (bounded where the proof is labelled bounded). In addition the shared kernel is "
             "proved under its own contracts: stralloc_ready/readyplus (all 2^32 requests: capacity >= request in 64-bit "
             "arithmetic, allocated size = recorded capacity, failure leaves the object untouched), stralloc_catb/copyb/"
             "append (exact lengths, bytes and trailing Z inside the allocation, any n), byte_chr, byte_rchr, scan_ulong "
             "(loop contracts, any length: never read past the buffer / the first non-digit), qmail-qmtpd getlen (no "
             "overflow, any number of digits), substdio's input side (feed/get/bget) and output side (put/bput/flush/putflush/"
             "allwrite incl. partial and interrupted writes) under loop contracts, commands() and qmail-local main() (loop "
             "contracts, any lengths). Bounded stand-ins: the sizing of main's forward-address table (.qmail <= 6 bytes) and "
             "token822_unquote's sizing vs. filling pass (<= 4 tokens).",
        note="The property as written (no input corrupts ANY program) is decided only for the listed functions. NOT covered: "
             "dns.c, token822_parse/addrlist, headerbody.c, hfield.c, qmail-inject.c, maildir.c, ipme.c, tcpto.c, "
             "getln/getln2, cdbmake_* (their contracts are assumed by the proofs that call them). "
             "--conversion-check is off (qmail's digit test relies on unsigned wrap-around, which is defined behaviour).",
        design_ref="DESIGN.md section 5 C20"),
}

NOT_APPLICABLE = {}
