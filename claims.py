# which properties are claimed (with the level text that goes into MANIFEST.json) and which are not (with the reason).
# Edited by hand together with DESIGN.md; bin/mkmanifest turns it into MANIFEST.json.

PENDING = "contracts designed in DESIGN.md section 5 but not yet built and discharged in this tree; not claimed until they are"

CLAIMS = {
    "C18": dict(
        text="Proof (CBMC function + loop contracts on the unmodified qmail-clean.c): for every byte stream of requests, "
             "every request gets exactly one status byte, unlink is called only on the name just formatted for the "
             "number a well-formed request names, in the order intd then mess/todo, and a rejected request changes "
             "nothing. Unbounded in the number and content of requests (request length <= 255 bytes).",
        note="Environment stubs (getln as request oracle, unlink, fmtqfn, scan_ulong through its contract) are trusted; "
             "message numbers are abstract values (scan_ulong wrap-around >= 2^64 is not distinguished).",
        design_ref="DESIGN.md section 5 C18"),
}

NOT_APPLICABLE = {p: PENDING for p in
                  ["C01", "C02", "C03", "C04", "C05", "C06", "C07", "C08", "C09", "C10", "C11", "C12", "C13", "C14", "C15",
                   "C16", "C17", "C19", "C20"]}
